#!/usr/bin/env python3
"""Translator: regenerate the tables under lean/OxiddModel/Generated/ from /repo's current source.

Purpose-built extraction (regular expressions + bracket matching; no general Rust front end) of the
places where a hand-written model can drift silently because they are *tables*.

Part 1 -> `SrcFacts.lean` (unchanged, byte-identical to what it always produced):

  * the operator enums (variant lists, in order),
  * for each `terminal_bin` (BDD, MTBDD, TDD): per `OP == <Enum>::<X>` block the operator tags that
    appear in its `Binary(<Enum>::<Y>, ..)` results (the apply-cache tag each operator is memoised
    under); for BDD and TDD the complete decision lists,
  * the BCDD dispatch tables `apply_quant_dispatch` / `apply_quant_unique_dispatch`
    (operator -> quantifier swapped?, inner kernel, negate f, negate g, negate result),
  * constants of the hash table (RATIO_N, RATIO_D, MIN_CAP), the GC water marks, memory orderings.
  A construct of part 1 that cannot be parsed is an error (exit 1).

Part 2 -> one file per kind/concern (data of the types in the hand-written `Rules*.lean`):

  * `SrcMtbdd.lean`       MTBDD `terminal_bin`: the decision list of every operator block,
  * `SrcI64.lean`         `terminal/i64.rs`: the match arms of `add/sub/mul/div/partial_cmp`, `signum`,
                          the `NumberBase` constants,
  * `SrcBcddKernels.lean` `terminal_and`/`terminal_xor` as decision lists, the `apply_bin` dispatch,
                          the derivation of the eight `<op>_edge` functions (both impls), the tag algebra,
  * `SrcZbddApply.lean`   `apply_union/intsec/diff/symm_diff`: terminal cases, operand sorting, cache
                          tags, the three arms of the level comparison,
  * `SrcReduce.lean`      `DiagramRules::reduce` and the free `reduce…` functions of all five kinds.
  Part 2 never exits with an error and never skips: a construct that is not recognised is listed in
  an `…Unparsed` definition of the generated file, which the obligation module proves empty.

The hand-written `Generated/Ob*.lean` prove (mostly by `decide`) that these facts satisfy what the
models assume; the check rebuilds them after every regeneration.

Source root: `--src-root DIR`, else $OXIDD_SRC_ROOT, else $OXIDD_REPO, else /repo.
Output directory: `--out-dir DIR`, else $OXIDD_GEN_OUT, else <this tree>/lean/OxiddModel/Generated.
"""
import os
import re
import sys

# source root: `--src-root DIR`, else $OXIDD_SRC_ROOT, else $OXIDD_REPO (used by check.py's callers), else /repo
# output directory: `--out-dir DIR`, else $OXIDD_GEN_OUT, else <this tree>/lean/OxiddModel/Generated
def _arg(flag):
    return sys.argv[sys.argv.index(flag) + 1] if flag in sys.argv and sys.argv.index(flag) + 1 < len(sys.argv) else None


REPO = _arg("--src-root") or os.environ.get("OXIDD_SRC_ROOT") or os.environ.get("OXIDD_REPO", "/repo")
ROOT = os.path.dirname(os.path.dirname(os.path.abspath(__file__)))
GEN_DIR = _arg("--out-dir") or os.environ.get("OXIDD_GEN_OUT") or os.path.join(ROOT, "lean", "OxiddModel", "Generated")
OUT = os.path.join(GEN_DIR, "SrcFacts.lean")


def read(rel):
    return open(os.path.join(REPO, rel), encoding="utf-8").read()


def die(msg):
    print("extract_tables: " + msg)
    sys.exit(1)


def strip_comments(src):
    src = re.sub(r"//[^\n]*", "", src)
    return re.sub(r"/\*.*?\*/", "", src, flags=re.S)


def block_after(src, start):
    """text of the {...} block whose opening brace is the first '{' at or after `start`"""
    i = src.index("{", start)
    depth = 0
    for j in range(i, len(src)):
        if src[j] == "{":
            depth += 1
        elif src[j] == "}":
            depth -= 1
            if depth == 0:
                return src[i + 1:j], j + 1
    die("unbalanced braces")


def enum_variants(src, name):
    m = re.search(r"pub enum " + name + r"\b", src)
    if not m:
        die(f"enum {name} not found")
    body, _ = block_after(src, m.end())
    body = strip_comments(body)
    body = re.sub(r"#\[[^\]]*\]", "", body)
    vs = [v.strip() for v in body.split(",")]
    vs = [re.match(r"[A-Za-z0-9_]+", v).group(0) for v in vs if v and re.match(r"[A-Za-z0-9_]+", v)]
    if not vs:
        die(f"enum {name}: no variants")
    return vs


def memo_tags(src, enum, fn="terminal_bin"):
    """[(operator, [tags in Binary(..) results])] for the `if OP == Enum::X as u8 { .. }` chain"""
    src = strip_comments(src)
    m = re.search(r"fn " + fn + r"\b", src)
    if not m:
        die(f"{fn} not found for {enum}")
    body, _ = block_after(src, m.end())
    out = []
    pos = 0
    while True:
        mm = re.search(r"OP == " + enum + r"::([A-Za-z0-9_]+) as u8\s*", body[pos:])
        if not mm:
            break
        op = mm.group(1)
        blk, end = block_after(body, pos + mm.end())
        tags = re.findall(r"Binary\(\s*" + enum + r"::([A-Za-z0-9_]+)", blk)
        out.append((op, tags))
        pos = end
    if not out:
        die(f"{fn}: no operator blocks for {enum}")
    return out


def dispatch_rows(src, fn, kernels):
    """rows of a BCDD dispatch `match op { X => ... }`"""
    src = strip_comments(src)
    m = re.search(r"fn " + fn + r"\b", src)
    if not m:
        die(f"{fn} not found")
    # skip the signature: the body is the block after the `where` clause
    w = src.index("where", m.end())
    body, _ = block_after(src, w)
    mm = re.search(r"match op\s*", body)
    if not mm:
        die(f"{fn}: no `match op`")
    arms, _ = block_after(body, mm.end())
    rows = []
    # split the arms at top level on `Name =>`
    idx = [(a.start(), a.group(1)) for a in re.finditer(r"(?m)^\s*([A-Z][A-Za-z]+) =>", arms)]
    for k, (st, name) in enumerate(idx):
        en = idx[k + 1][0] if k + 1 < len(idx) else len(arms)
        arm = arms[st:en]
        call = re.search(r"apply_quant::<M, R, (\w+), (\w+)>\(manager, rec, ([^;]*?), vars\)", arm, flags=re.S)
        if not call:
            die(f"{fn}: cannot parse arm {name}")
        q, kern, args = call.group(1), call.group(2), call.group(3)
        parts = [a.strip() for a in args.split(",")]
        if len(parts) != 2:
            # `not(&f), not(&g)` contains no extra commas; anything else is unexpected
            die(f"{fn}: arm {name}: operands `{args}`")
        negf = parts[0].startswith("not(")
        negg = parts[1].startswith("not(")
        negres = "not_owned(tmp)" in arm
        if kern not in kernels:
            die(f"{fn}: arm {name}: unknown kernel {kern}")
        rows.append((name, q, kernels[kern], negf, negg, negres))
    if len(rows) != 8:
        die(f"{fn}: expected 8 arms, found {len(rows)}")
    return rows


def split_arms(body):
    """split the body of a `match` into (pattern, result) pairs at top level"""
    arms = []
    i, n = 0, len(body)
    while i < n:
        # pattern up to `=>` at depth 0
        depth = 0
        j = i
        while j < n:
            c = body[j]
            if c in "([{":
                depth += 1
            elif c in ")]}":
                depth -= 1
            elif c == "=" and depth == 0 and body[j:j + 2] == "=>":
                break
            j += 1
        if j >= n:
            break
        pat = " ".join(body[i:j].split())
        k = j + 2
        while k < n and body[k].isspace():
            k += 1
        if k < n and body[k] == "{":
            blk, end = block_after(body, k)
            res = " ".join(blk.split())
            k = end
            while k < n and (body[k].isspace() or body[k] == ","):
                k += 1
        else:
            depth = 0
            e = k
            while e < n:
                c = body[e]
                if c in "([{":
                    depth += 1
                elif c in ")]}":
                    depth -= 1
                elif c == "," and depth == 0:
                    break
                e += 1
            res = " ".join(body[k:e].split())
            k = e + 1
        if pat:
            arms.append((pat, res))
        i = k
    return arms


def classify_result(res, enum):
    res = res.strip().rstrip(";").strip()
    res = re.sub(r"^return\s+", "", res)
    m = re.fullmatch(r"Done\(m\.clone_edge\((f|g)\)\)", res)
    if m:
        return ("clone", m.group(1), "", "")
    m = re.fullmatch(r"Done\(m\.get_terminal\((\w+)\)\.unwrap\(\)\)", res)
    if m:
        return ("const", m.group(1), "", "")
    m = re.fullmatch(r"Not\((f|g)\.borrowed\(\)\)", res)
    if m:
        return ("not", m.group(1), "", "")
    m = re.fullmatch(r"Binary\(" + enum + r"::(\w+), (f|g)\.borrowed\(\), (f|g)\.borrowed\(\)\)", res)
    if m:
        return ("bin", m.group(1), m.group(2), m.group(3))
    return None


def classify_pattern(pat):
    table = [
        (r"\(Terminal\(t\), _\) \| \(_, Terminal\(t\)\) if \*t\.borrow\(\) == (\w+)", "either"),
        (r"\(Terminal\(t\), _\) if \*t\.borrow\(\) == (\w+)", "f"),
        (r"\(_, Terminal\(t\)\) if \*t\.borrow\(\) == (\w+)", "g"),
        (r"\(Terminal\(_\), _\)", "fterm"),
        (r"\(_, Terminal\(_\)\)", "gterm"),
        (r"\(Inner\(_\), Inner\(_\)\) if f > g", "inner_gt"),
        (r"\(Inner\(_\), Inner\(_\)\)", "inner"),
        (r"_ if f > g", "any_gt"),
        (r"_", "any"),
    ]
    for rx, name in table:
        m = re.fullmatch(rx, pat)
        if m:
            return (name, m.group(1) if m.groups() else "")
    return None


def terminal_rules(src, enum, fn="terminal_bin"):
    """the decision list of every operator block of `terminal_bin`:
    [(operator, [(pattern, constant, result kind, x, a, b)])]; operators whose block uses a
    construct outside the recognised shapes are returned in the second list (not an error: the
    correspondence streams still cover them)"""
    src = strip_comments(src)
    m = re.search(r"fn " + fn + r"\b", src)
    if not m:
        die(f"{fn} not found for {enum}")
    body, _ = block_after(src, m.end())
    out, unparsed = [], []
    pos = 0
    while True:
        mm = re.search(r"OP == " + enum + r"::([A-Za-z0-9_]+) as u8\s*", body[pos:])
        if not mm:
            break
        op = mm.group(1)
        blk, end = block_after(body, pos + mm.end())
        pos = end
        rules = []
        ok = True
        rest = blk
        me = re.match(r"\s*if f == g \{(.*?)\}", rest, flags=re.S)
        if me:
            r = classify_result(" ".join(me.group(1).split()), enum)
            if r is None:
                ok = False
            else:
                rules.append(("eq", "") + r)
            rest = rest[me.end():]
        mt = re.match(r"\s*match \(m\.get_node\(f\), m\.get_node\(g\)\)\s*", rest)
        if not mt:
            ok = False
        else:
            arms_body, e2 = block_after(rest, mt.end() - 1)
            if rest[e2:].strip():
                ok = False
            for pat, res in split_arms(arms_body):
                pc, rc = classify_pattern(pat), classify_result(res, enum)
                if pc is None or rc is None:
                    ok = False
                    break
                rules.append(pc + rc)
        if ok and rules:
            out.append((op, rules))
        else:
            unparsed.append(op)
    return out, unparsed


def const_usize(src, name):
    m = re.search(r"const " + name + r"\s*:\s*\w+\s*=\s*(\d+)\s*;", src)
    if not m:
        die(f"const {name} not found")
    return int(m.group(1))


def fn_bodies(src, name):
    """bodies of all `fn <name>` definitions (comments stripped)"""
    src = strip_comments(src)
    out = []
    for m in re.finditer(r"fn " + name + r"\b[^;{]*", src):
        # skip declarations without body (trait methods ending in `;`)
        j = m.end()
        if j < len(src) and src[j] == "{":
            body, _ = block_after(src, m.start())
            out.append(body)
    return out


def enclosing_fn(src, pos):
    ms = list(re.finditer(r"fn ([A-Za-z0-9_]+)", src[:pos]))
    return ms[-1].group(1) if ms else "?"


ORD = r"(?:Ordering::)?(Relaxed|Release|Acquire|AcqRel|SeqCst)"


def orderings(tag, src):
    """memory orderings of the reference-count protocol and of the hand-written locks in one file"""
    src = strip_comments(src)
    # drop debug assertions (they do not license anything)
    src = re.sub(r"debug_assert(?:_eq|_ne)?!\s*\((?:[^()]|\([^()]*\))*\)\s*;", "", src)
    rel = [(tag, enclosing_fn(src, m.start()), m.group(1)) for m in re.finditer(r"\brc\s*\.\s*fetch_sub\(\s*1\s*,\s*" + ORD + r"\s*\)", src)]
    lic = [(tag, enclosing_fn(src, m.start()), m.group(1)) for m in re.finditer(r"load_rc\(\s*" + ORD + r"\s*\)\s*(?:!=|==)\s*1", src)]
    lic += [(tag, enclosing_fn(src, m.start()), m.group(1)) for m in re.finditer(r"\brc\s*\.\s*load\(\s*" + ORD + r"\s*\)\s*(?:!=|==)\s*1", src)]
    # `let rc = node.load_rc(X); ... if rc != 1`
    lic += [(tag, enclosing_fn(src, m.start()), m.group(1)) for m in re.finditer(r"let rc = [a-z_.]*load_rc\(\s*" + ORD + r"\s*\)\s*;", src)]
    fen = [(tag, enclosing_fn(src, m.start()), m.group(1)) for m in re.finditer(r"fence\(\s*" + ORD + r"\s*\)", src)]
    lk = [(tag, enclosing_fn(src, m.start()), m.group(1)) for m in re.finditer(r"\.swap\(\s*true\s*,\s*" + ORD + r"\s*\)", src)]
    ul = [(tag, enclosing_fn(src, m.start()), m.group(1)) for m in re.finditer(r"\.store\(\s*false\s*,\s*" + ORD + r"\s*\)", src)]
    return rel, lic, fen, lk, ul


# ---------------------------------------------------------------------------------------------
# Part 2: decision lists / tables emitted into their own files (one per kind/concern), so that a
# change to one table cannot break an unrelated obligation.  Nothing here calls `die()`: a construct
# that is not recognised is *reported* in an `…Unparsed` list of the generated file, and the
# obligation module proves that list empty — the check then names it instead of skipping it.
# ---------------------------------------------------------------------------------------------

GEN_HEADER = "/-! GENERATED by tools/extract_tables.py from /repo's current source — do not edit. -/"


def compact(s):
    return re.sub(r"\s+", "", s)


def desc(where, text):
    """description string of an unparsed construct (safe inside a Lean string literal)"""
    t = " ".join(text.split())
    t = t.replace("\\", "/").replace('"', "'")
    return (where + ": " + t)[:110]


def lean_strs(xs):
    return lean_list(['"' + x + '"' for x in xs])


def split_top(s, sep):
    """split `s` at top-level occurrences of the string `sep` (not inside brackets)"""
    out, depth, i, last = [], 0, 0, 0
    while i < len(s):
        c = s[i]
        if c in "([{":
            depth += 1
        elif c in ")]}":
            depth -= 1
        elif depth == 0 and s.startswith(sep, i):
            # `|` must not split `||`; `=>`/`==` never used as separators here
            if sep == "|" and (s.startswith("||", i) or (i > 0 and s[i - 1] == "|")):
                i += 1
                continue
            out.append(s[last:i])
            i += len(sep)
            last = i
            continue
        i += 1
    out.append(s[last:])
    return out


def strip_outer(s, open_="(", close=")"):
    """remove redundant outer brackets: `((x))` -> `x`"""
    s = s.strip()
    while s.startswith(open_) and s.endswith(close):
        depth = 0
        ok = True
        for i, c in enumerate(s):
            if c == open_:
                depth += 1
            elif c == close:
                depth -= 1
                if depth == 0 and i != len(s) - 1:
                    ok = False
                    break
        if not ok:
            break
        s = s[1:-1].strip()
    return s


def strip_result(res):
    """`{ return Ok(x); }` / `return x;` / `x` -> `x` (what the arm evaluates to)"""
    r = res.strip()
    r = strip_outer(r, "{", "}")
    r = r.rstrip(";").strip()
    r = re.sub(r"^return\b\s*", "", r)
    m = re.fullmatch(r"Ok\((.*)\)", r, flags=re.S)
    if m and strip_outer("(" + m.group(1) + ")") == m.group(1).strip():
        r = m.group(1).strip()
    return r


def op_blocks(src, enum, fn):
    """[(operator, text of its block)] of the chain `if OP == Enum::X as u8 { .. } else if ..` in `fn`"""
    src = strip_comments(src)
    m = re.search(r"fn " + fn + r"\b", src)
    if not m:
        return None
    body, _ = block_after(src, m.end())
    out, pos = [], 0
    while True:
        mm = re.search(r"OP\s*==\s*" + enum + r"::([A-Za-z0-9_]+)\s+as\s+u8\s*", body[pos:])
        if not mm:
            break
        blk, end = block_after(body, pos + mm.end())
        out.append((mm.group(1), blk))
        pos = end
    return out


# ---- MTBDD `terminal_bin` -------------------------------------------------------------------

MT_OPS = {"Add": "add", "Sub": "sub", "Mul": "mul", "Div": "div", "Min": "min", "Max": "max"}


def mt_pattern(pat):
    """-> (Lean term of type Mt.Pat, binder names of a `tt` pattern) or None"""
    parts = re.split(r"\bif\b", pat, maxsplit=1)
    alts = [compact(a) for a in split_top(parts[0], "|")]
    guard = compact(parts[1]) if len(parts) > 1 else ""
    kinds, binders = [], []
    for a in alts:
        m = re.fullmatch(r"\((?:Node::)?Terminal\((\w+)\),(?:Node::)?Terminal\((\w+)\)\)", a)
        if m:
            kinds.append("tt")
            binders += [m.group(1), m.group(2)]
            continue
        m = re.fullmatch(r"\((?:Node::)?Terminal\((\w+)\),_\)", a)
        if m:
            kinds.append("f")
            binders.append(m.group(1))
            continue
        m = re.fullmatch(r"\(_,(?:Node::)?Terminal\((\w+)\)\)", a)
        if m:
            kinds.append("g")
            binders.append(m.group(1))
            continue
        if a in ("_", "(_,_)"):
            kinds.append("any")
            continue
        return None
    ks = sorted(set(kinds))
    if ks == ["tt"] and len(kinds) == 1 and not guard:
        return (".tt", binders)
    if ks == ["any"] and len(kinds) == 1:
        if not guard:
            return (".any", [])
        if guard in ("f>g", "g<f"):
            return (".anyGt", [])
        return None
    if ks in (["f"], ["g"], ["f", "g"]) and len(kinds) == len(ks) and len(set(binders)) == 1:
        b = binders[0]
        m = re.fullmatch(r"\(?\*?" + b + r"(?:\.borrow\(\))?\)?\.is_(zero|one|nan)\(\)", guard)
        if not m:  # `*t.borrow() == T::zero()` is what `is_zero()` is defined as
            m = re.fullmatch(r"\*" + b + r"(?:\.borrow\(\))?==T::(zero|one|nan)\(\)", guard) or \
                re.fullmatch(r"T::(zero|one|nan)\(\)==\*" + b + r"(?:\.borrow\(\))?", guard)
        if not m:
            return None
        c = {"f": ".fIs", "g": ".gIs", "fg": ".eitherIs"}["".join(ks)]
        return (f"({c} .{m.group(1)})", [])
    return None


def mt_select(arms_body):
    """arms of `match tf.partial_cmp(tg) { .. }` -> (lt, eq, gt, un) as Lean `Mt.Sel` terms, or None"""
    tab = {}
    for pat, res in split_arms(arms_body):
        r = compact(strip_result(res))
        m = re.fullmatch(r"m\.clone_edge\(&?(f|g)\)", r)
        if m:
            v = "." + m.group(1)
        elif re.fullmatch(r"m\.get_terminal\(T::nan\(\)\)\?", r):
            v = ".nan"
        else:
            return None
        for alt in split_top(pat, "|"):
            a = compact(alt)
            if a == "None":
                keys = ["None"]
            elif a == "_":
                keys = [k for k in ("Less", "Equal", "Greater", "None") if k not in tab]
            else:
                m = re.fullmatch(r"Some\((.*)\)", a)
                if not m:
                    return None
                keys = [re.sub(r"^(?:std::cmp::|cmp::)?Ordering::", "", k) for k in m.group(1).split("|")]
            for k in keys:
                if k not in ("Less", "Equal", "Greater", "None") or k in tab:
                    return None
                tab[k] = v
    if len(tab) != 4:
        return None
    return tuple(tab[k] for k in ("Less", "Equal", "Greater", "None"))


def mt_result(res, binders):
    """-> Lean term of type Mt.Res, or None.  `binders`: the names bound by the arm's `tt` pattern"""
    raw = strip_result(res)
    # Done(match tf.partial_cmp(tg) { .. })
    m = re.match(r"Done\(\s*match\s+(\w+)(?:\.borrow\(\))?\s*\.partial_cmp\(\s*&?(\w+)(?:\.borrow\(\))?\s*\)\s*", raw)
    if m and len(binders) == 2 and [m.group(1), m.group(2)] == binders:
        arms, end = block_after(raw, m.end() - 1)
        if compact(raw[end:]) != ")":
            return None
        t = mt_select(arms)
        return None if t is None else "(.select " + " ".join(t) + ")"
    r = compact(raw)
    m = re.fullmatch(r"Done\(m\.clone_edge\(&?(f|g)\)\)", r)
    if m:
        return f"(.clone .{m.group(1)})"
    if re.fullmatch(r"Done\(m\.get_terminal\(T::nan\(\)\)\?\)", r):
        return ".nan"
    m = re.fullmatch(r"Binary\(MTBDDOp::(\w+),(f|g)\.borrowed\(\),(f|g)\.borrowed\(\)\)", r)
    if m and m.group(1) in MT_OPS:
        return f"(.bin .{MT_OPS[m.group(1)]} .{m.group(2)} .{m.group(3)})"
    # let val = tf.borrow().add(tg.borrow()); Done(m.get_terminal(val)?)      (or inlined)
    call = r"(\w+)(?:\.borrow\(\))?\.(add|sub|mul|div)\(&?(\w+)(?:\.borrow\(\))?\)"
    m = re.fullmatch(r"let(\w+)=" + call + r";Done\(m\.get_terminal\((\w+)\)\?\)", r)
    if m and m.group(1) == m.group(5):
        a, meth, b = m.group(2), m.group(3), m.group(4)
    else:
        m = re.fullmatch(r"Done\(m\.get_terminal\(" + call + r"\)\?\)", r)
        if not m:
            return None
        a, meth, b = m.group(1), m.group(2), m.group(3)
    if len(binders) == 2 and [a, b] == binders:
        return f"(.compute .{meth})"
    return None


def mt_terminal_rules(src):
    """MTBDD `terminal_bin` -> ([(operator, [Lean MRule terms])], [descriptions of unparsed constructs])"""
    out, unparsed = [], []
    blocks = op_blocks(src, "MTBDDOp", "terminal_bin")
    if not blocks:
        return [], ["fn terminal_bin (MTBDD): not found or no operator blocks"]
    for op, blk in blocks:
        where = "terminal_bin/" + op
        if op not in MT_OPS:
            unparsed.append(desc(where, "operator unknown to the model"))
            continue
        rules, rest = [], blk
        me = re.match(r"\s*if\s+f\s*==\s*g\s*", rest)
        if me:
            body, end = block_after(rest, me.end())
            r = mt_result(body, [])
            if r is None:
                unparsed.append(desc(where + " if f == g", body))
            else:
                rules.append(f"⟨.eq, {r}⟩")
            rest = rest[end:]
        mt = re.match(r"\s*match\s*\(\s*m\.get_node\(&?f\)\s*,\s*m\.get_node\(&?g\)\s*,?\s*\)\s*", rest)
        if not mt:
            unparsed.append(desc(where, rest))
            continue
        arms_body, e2 = block_after(rest, mt.end() - 1)
        if rest[e2:].strip():
            unparsed.append(desc(where + " after match", rest[e2:]))
        for pat, res in split_arms(arms_body):
            pc = mt_pattern(pat)
            if pc is None:
                unparsed.append(desc(where + " pattern", pat))
                continue
            rc = mt_result(res, pc[1])
            if rc is None:
                unparsed.append(desc(where + " arm " + pat, res))
                continue
            rules.append(f"⟨{pc[0]}, {rc}⟩")
        out.append((op, rules))
    return out, unparsed


def gen_mtbdd(read_):
    try:
        rules, unparsed = mt_terminal_rules(read_("crates/oxidd-rules-mtbdd/src/lib.rs"))
    except Exception as e:  # never crash, never skip: report
        rules, unparsed = [], [desc("extractor exception", repr(e))]
    L = ["import OxiddModel.Generated.RulesMtbdd", GEN_HEADER, "namespace OxiddModel.Generated\n"]
    items = [f"(.{MT_OPS[op]}, {lean_list(rs)})" for op, rs in rules]
    L.append("/-- `terminal_bin` (mtbdd, `crates/oxidd-rules-mtbdd/src/lib.rs`): operator ↦ decision list, in source order -/")
    L.append("def termRules_mtbdd : List (Mt.MOp × List Mt.MRule) :=\n  [" + ",\n   ".join(items) + "]")
    L.append("/-- constructs of `terminal_bin` (mtbdd) that the extractor does not recognise -/")
    L.append(f"def termRulesUnparsed_mtbdd : List String := {lean_strs(unparsed)}")
    L.append("\nend OxiddModel.Generated")
    return {"SrcMtbdd.lean": "\n".join(L) + "\n"}


# ---- `I64` terminal arithmetic (`terminal/i64.rs`) --------------------------------------------

I6_CLS = {"NaN": ".nan", "MinusInf": ".ninf", "PlusInf": ".pinf"}


class Unparsed(Exception):
    pass


def lean_int(k):
    return str(k) if k >= 0 else f"({k})"


def i6_int(tok):
    t = compact(tok).replace("_", "")
    t = re.sub(r"(?:i64|i32|isize)$", "", t)
    if t in ("i64::MIN", "std::i64::MIN"):
        return -(2 ** 63)
    if t in ("i64::MAX", "std::i64::MAX"):
        return 2 ** 63 - 1
    if re.fullmatch(r"-?\d+", t):
        return int(t)
    raise Unparsed("constant " + tok)


def i6_operand_pat(p, side, binders):
    """one operand pattern -> list of Lean CPat terms (alternatives); records `Num(x)` binders"""
    out = []
    for a in split_top(p, "|"):
        a = re.sub(r"^(?:I64|Self)::", "", compact(a))
        a = re.sub(r"^&", "", a)
        if a == "_":
            out.append(".any")
        elif a in I6_CLS:
            out.append(f"(.is {I6_CLS[a]})")
        else:
            m = re.fullmatch(r"Num\((\w+)\)", a)
            if not m:
                raise Unparsed("operand pattern " + p)
            if m.group(1) != "_":
                if binders.get(m.group(1), side) != side:
                    raise Unparsed("binder used on both sides " + p)
                binders[m.group(1)] = side
            out.append("(.is .num)")
    return out


def i6_pattern(pat):
    """`(P, Q) | (P', Q') [if guard]` -> ([Lean pair terms], guard text or None, binders name->lhs|rhs)"""
    parts = re.split(r"\bif\b", pat, maxsplit=1)
    binders, pairs = {}, []
    for alt in split_top(parts[0], "|"):
        a = alt.strip()
        if a == "_":
            pairs.append("(.any, .any)")
            continue
        if not (a.startswith("(") and a.endswith(")")):
            raise Unparsed("pattern " + pat)
        comps = split_top(a[1:-1], ",")
        comps = [c for c in comps if c.strip()]
        if len(comps) != 2:
            raise Unparsed("pattern " + pat)
        for l in i6_operand_pat(comps[0], "lhs", binders):
            for r in i6_operand_pat(comps[1], "rhs", binders):
                pairs.append(f"({l}, {r})")
    return pairs, (parts[1].strip() if len(parts) > 1 else None), binders


I6_REL = {"<": "lt", "<=": "le", ">": "gt", ">=": "ge", "==": "eq", "!=": "ne"}
I6_FLIP = {"lt": "gt", "le": "ge", "gt": "lt", "ge": "le", "eq": "eq", "ne": "ne"}


def i6_cond(txt, binders):
    """Rust Boolean expression over the payloads -> Lean term of type I6.Cond"""
    t = strip_outer(txt)
    ors = split_top(t, "||")
    if len(ors) > 1:
        r = i6_cond(ors[0], binders)
        for o in ors[1:]:
            r = f"(.or {r} {i6_cond(o, binders)})"
        return r
    ands = split_top(t, "&&")
    if len(ands) > 1:
        r = i6_cond(ands[0], binders)
        for o in ands[1:]:
            r = f"(.and {r} {i6_cond(o, binders)})"
        return r
    t = t.strip()
    if t.startswith("!"):
        return f"(.not {i6_cond(t[1:], binders)})"
    m = re.fullmatch(r"(.+?)\s*(<=|>=|==|!=|<|>)\s*(.+)", t, flags=re.S)
    if not m:
        raise Unparsed("condition " + txt)
    a, rel, b = compact(m.group(1)).lstrip("*"), I6_REL[m.group(2)], compact(m.group(3)).lstrip("*")
    if a in binders:
        return f"(.cmp .{binders[a]} .{rel} {lean_int(i6_int(b))})"
    if b in binders:
        return f"(.cmp .{binders[b]} .{I6_FLIP[rel]} {lean_int(i6_int(a))})"
    raise Unparsed("condition " + txt)


def i6_match_head(t, rx):
    """`match <rx> { arms }` covering all of `t` -> (regex match, arms) or None"""
    m = re.match(r"match\s+" + rx + r"\s*(?=\{)", t, flags=re.S)
    if not m:
        return None
    arms, end = block_after(t, m.end())
    if t[end:].strip():
        return None
    return m, split_arms(arms)


def i6_expr(txt, binders):
    """result expression of an arm -> Lean term of type I6.Expr"""
    t = strip_result(txt)
    t = strip_outer(t, "{", "}").strip()
    c = re.sub(r"^(?:I64|Self)::", "", compact(t))
    if c in I6_CLS:
        return I6_CLS[c]
    m = re.fullmatch(r"Num\((.*)\)", c)
    if m:
        d = re.fullmatch(r"(\w+)/(\w+)", m.group(1))
        if d:
            if binders.get(d.group(1)) == "lhs" and binders.get(d.group(2)) == "rhs":
                return ".tdiv"
            raise Unparsed("division operands " + t)
        return f"(.numLit {lean_int(i6_int(m.group(1)))})"
    # if c { a } else { b }   /   else if
    m = re.match(r"if\b", t)
    if m:
        i = t.index("{")  # conditions contain no braces
        cond = t[m.end():i]
        then, end = block_after(t, i)
        rest = t[end:].strip()
        if not rest.startswith("else"):
            raise Unparsed("if without else " + t)
        rest = rest[4:].strip()
        return f"(.ite {i6_cond(cond, binders)} {i6_expr(then, binders)} {i6_expr(rest, binders)})"
    # match lhs.checked_add(rhs) { Some(n) => Num(n), None => e }
    h = i6_match_head(t, r"(\w+)\s*\.\s*checked_(add|sub|mul)\(\s*(\w+)\s*\)")
    if h:
        m, arms = h
        if binders.get(m.group(1)) != "lhs" or binders.get(m.group(3)) != "rhs":
            raise Unparsed("checked operands " + t)
        some, none = None, None
        for p, r in arms:
            pc = compact(p)
            ms = re.fullmatch(r"Some\((\w+)\)", pc)
            if ms and re.fullmatch(r"(?:I64::|Self::)?Num\(" + ms.group(1) + r"\)", compact(strip_result(r))):
                some = True
            elif pc in ("None", "_"):
                none = i6_expr(r, binders)
            else:
                raise Unparsed("checked arm " + p + " => " + r)
        if not some or none is None:
            raise Unparsed("checked arms " + t)
        return f"(.checked .{m.group(2)} {none})"
    # match lhs.cmp(&0) { Less => .., Equal => .., Greater => .. }
    h = i6_match_head(t, r"(\w+)\s*\.\s*cmp\(\s*&?\s*([^)]+?)\s*\)")
    if h:
        m, arms = h
        if m.group(1) not in binders:
            raise Unparsed("cmp operand " + t)
        tab = {}
        for p, r in arms:
            for alt in split_top(p, "|"):
                k = re.sub(r"^(?:std::cmp::|cmp::)?Ordering::", "", compact(alt))
                if k not in ("Less", "Equal", "Greater") or k in tab:
                    raise Unparsed("cmp arm " + p)
                tab[k] = i6_expr(r, binders)
        if len(tab) != 3:
            raise Unparsed("cmp arms " + t)
        return f"(.cmp3 .{binders[m.group(1)]} {lean_int(i6_int(m.group(2)))} {tab['Less']} {tab['Equal']} {tab['Greater']})"
    # match self.signum().unwrap() * rhs.signum().unwrap() { 1 => .., -1 => .., _ => .. }
    h = i6_match_head(t, r"self\.signum\(\)\.unwrap\(\)\s*\*\s*rhs\.signum\(\)\.unwrap\(\)")
    if h:
        _, arms = h
        tab = {}
        for p, r in arms:
            k = compact(p)
            if k not in ("1", "-1", "_") or k in tab:
                raise Unparsed("signum arm " + p)
            tab[k] = i6_expr(r, binders)
        if len(tab) != 3:
            raise Unparsed("signum arms " + t)
        return f"(.signProd {tab['1']} {tab['-1']} {tab['_']})"
    raise Unparsed("expression " + t)


def i6_impl_fn(src, trait, fn):
    """body of `fn <fn>` inside `impl <trait> for I64 { .. }`"""
    m = re.search(r"impl\s+" + trait + r"\s+for\s+I64\b", src)
    if not m:
        raise Unparsed(f"impl {trait} for I64 not found")
    blk, _ = block_after(src, m.end())
    bodies = fn_bodies(blk, fn)
    if len(bodies) != 1:
        raise Unparsed(f"fn {fn} in impl {trait} for I64 not found")
    return bodies[0]


def i6_match_arms(body, scrut):
    """arms of the `match (self, rhs) { .. }` that makes up `body` (after optional `use ..;`)"""
    b = re.sub(r"^\s*(?:use\s+[^;]*;\s*)*", "", body)
    m = re.match(r"match\s*\(\s*self\s*,\s*" + scrut + r"\s*\)\s*(?=\{)", b)
    if not m:
        raise Unparsed("not a single `match (self, " + scrut + ")`: " + b)
    arms, end = block_after(b, m.end())
    if b[end:].strip():
        raise Unparsed("code after the match: " + b[end:])
    return split_arms(arms)


def gen_i64(read_):
    unparsed = []
    tables = {}
    try:
        src = strip_comments(read_("crates/oxidd-rules-mtbdd/src/terminal/i64.rs"))
    except Exception as e:
        src, unparsed = "", [desc("i64.rs", repr(e))]
    for trait, fn in (("Add", "add"), ("Sub", "sub"), ("Mul", "mul"), ("Div", "div")):
        rows = []
        try:
            for pat, res in i6_match_arms(i6_impl_fn(src, trait, fn), "rhs"):
                try:
                    pairs, guard, binders = i6_pattern(pat)
                    g = "none" if guard is None else f"(some {i6_cond(guard, binders)})"
                    rows.append(f"⟨{lean_list(pairs)}, {g}, {i6_expr(res, binders)}⟩")
                except Unparsed as e:
                    unparsed.append(desc(f"I64::{fn} arm `{pat}`", str(e)))
        except Exception as e:
            unparsed.append(desc(f"I64::{fn}", str(e) if isinstance(e, Unparsed) else repr(e)))
        tables[fn] = rows
    crows = []
    try:
        for pat, res in i6_match_arms(i6_impl_fn(src, "PartialOrd", "partial_cmp"), "other"):
            try:
                pairs, guard, binders = i6_pattern(pat)
                r = compact(strip_result(res))
                r = re.sub(r"(?:std::cmp::|cmp::)?Ordering::", "", r)
                m = re.fullmatch(r"Some\((\w+)\.cmp\(&?(\w+)\)\)", r)
                if guard is not None:
                    raise Unparsed("guard " + guard)
                if m and binders.get(m.group(1)) == "lhs" and binders.get(m.group(2)) == "rhs":
                    v = ".numCmp"
                elif r in ("Some(Less)", "Some(Equal)", "Some(Greater)"):
                    v = "." + r[5:-1].lower()
                elif r == "None":
                    v = ".unordered"
                else:
                    raise Unparsed("result " + res)
                crows.append(f"⟨{lean_list(pairs)}, {v}⟩")
            except Unparsed as e:
                unparsed.append(desc(f"I64::partial_cmp arm `{pat}`", str(e)))
    except Exception as e:
        unparsed.append(desc("I64::partial_cmp", str(e) if isinstance(e, Unparsed) else repr(e)))
    # signum
    sig = {}
    try:
        bodies = [b for b in fn_bodies(src, "signum") if "match self" in b]
        if len(bodies) != 1:
            raise Unparsed("fn signum not found")
        b = bodies[0].strip()
        m = re.fullmatch(r"Some\(\s*match\s+self\s*(\{.*\})\s*\)", b, flags=re.S)
        if not m:
            raise Unparsed("signum body " + b)
        arms, _ = block_after(m.group(1), 0)
        for pat, res in split_arms(arms):
            k = re.sub(r"^(?:I64|Self)::", "", compact(pat))
            r = compact(strip_result(res))
            if k in I6_CLS:
                k = I6_CLS[k]
            elif re.fullmatch(r"Num\(\w+\)", k):
                k = ".num"
            else:
                raise Unparsed("signum pattern " + pat)
            if r == "None" and re.match(r"\s*return\b", res):
                v = ".none"
            elif re.fullmatch(r"-?\d+", r):
                v = f"(.lit {lean_int(int(r))})"
            elif re.fullmatch(r"\w+\.signum\(\)(?:asi\d+)?", r):
                v = ".ofNum"
            else:
                raise Unparsed("signum result " + res)
            if k in sig:
                raise Unparsed("signum duplicate arm " + pat)
            sig[k] = v
    except Exception as e:
        unparsed.append(desc("I64::signum", str(e) if isinstance(e, Unparsed) else repr(e)))
    # NumberBase: constants and which operator a method forwards to
    consts, meths = [], []
    try:
        m = re.search(r"impl\s+NumberBase\s+for\s+I64\b", src)
        if not m:
            raise Unparsed("impl NumberBase for I64 not found")
        blk, _ = block_after(src, m.end())
        for name in ("zero", "one", "nan"):
            bs = fn_bodies(blk, name)
            if len(bs) != 1:
                raise Unparsed(f"NumberBase::{name} not found")
            consts.append(f'("{name}", {i6_expr(bs[0], {})})')
        for name in ("add", "sub", "mul", "div"):
            bs = fn_bodies(blk, name)
            mm = re.fullmatch(r"\*?self([-+*/])\*?rhs", compact(strip_result(bs[0]))) if len(bs) == 1 else None
            if not mm:
                raise Unparsed(f"NumberBase::{name}: " + (bs[0] if bs else "not found"))
            meths.append(f'("{name}", "{mm.group(1)}")')
    except Exception as e:
        unparsed.append(desc("NumberBase for I64", str(e) if isinstance(e, Unparsed) else repr(e)))

    L = ["import OxiddModel.Generated.RulesI64", GEN_HEADER, "namespace OxiddModel.Generated\n"]
    for fn in ("add", "sub", "mul", "div"):
        L.append(f"/-- `impl {fn.capitalize()} for I64` (`terminal/i64.rs`): the arms of `match (self, rhs)`, in source order -/")
        L.append(f"def i64Arms_{fn} : List I6.Arm :=\n  [" + ",\n   ".join(tables[fn]) + "]")
    L.append("/-- `impl PartialOrd for I64`: the arms of `match (self, other)` -/")
    L.append("def i64Arms_partialCmp : List I6.CArm :=\n  [" + ",\n   ".join(crows) + "]")
    L.append("/-- `I64::signum` (constructor ↦ result), in the order of the enum -/")
    L.append("def i64Signum : List (I6.Cls × I6.SRes) := " + lean_list([f"({k}, {sig[k]})" for k in (".nan", ".ninf", ".num", ".pinf") if k in sig]))
    L.append("/-- `impl NumberBase for I64`: the constants `zero()`, `one()`, `nan()` -/")
    L.append("def i64Consts : List (String × I6.Expr) := " + lean_list(consts))
    L.append("/-- … and the operator each method forwards to (`self + rhs`, …) -/")
    L.append("def i64Methods : List (String × String) := " + lean_list(meths))
    L.append("/-- constructs of `terminal/i64.rs` that the extractor does not recognise -/")
    L.append(f"def i64Unparsed : List String := {lean_strs(unparsed)}")
    L.append("\nend OxiddModel.Generated")
    return {"SrcI64.lean": "\n".join(L) + "\n"}


# ---- BCDD kernels `terminal_and` / `terminal_xor`, `apply_bin` dispatch, operator derivations ----

def lean_bool(b):
    return "true" if b else "false"


def bc_tagname(t):
    t = re.sub(r"^EdgeTag::", "", compact(t))
    return t if t in ("None", "Complemented") else None


def bc_bexpr(txt, names):
    """Boolean expression over the tags -> Lean Bc.BExpr.  names: {'ft': 'f', 'gt': 'g'}"""
    t = strip_outer(txt)
    for sep, ctor in (("||", ".or"), ("&&", ".and")):
        parts = split_top(t, sep)
        if len(parts) > 1:
            r = bc_bexpr(parts[0], names)
            for o in parts[1:]:
                r = f"({ctor} {r} {bc_bexpr(o, names)})"
            return r
    c = compact(t)
    if c in ("true", "false"):
        return f"(.lit {c})"
    if c.startswith("!"):
        return f"(.not {bc_bexpr(c[1:], names)})"
    m = re.fullmatch(r"(.+?)(==|!=)(.+)", c)
    if m:
        a, rel, b = m.group(1), m.group(2), m.group(3)
        if a in names and b in names and a != b:
            return f"(.tagsEq {lean_bool(rel == '==')})"
        if b in names and bc_tagname(a):
            a, b = b, a
        if a in names and bc_tagname(b):
            return f"(.tagNone .{names[a]} {lean_bool((bc_tagname(b) == 'None') == (rel == '=='))})"
    raise Unparsed("tag expression " + txt)


def bc_unwrap_done(c):
    """`Done(EdgeDropGuard::new(manager, X))` / `Done(X)` -> X (compact text) or None"""
    m = re.fullmatch(r"(?:NodesOrDone::)?Done\((.*)\)", c)
    if not m:
        return None
    x = m.group(1)
    m2 = re.fullmatch(r"EdgeDropGuard::new\(manager,(.*)\)", x)
    return m2.group(1) if m2 else x


def bc_edge_expr(txt, env, names, tagval):
    """symbolic value of an edge-valued expression: ('edge', side, negated) | ('const', Lean BExpr).
    env: variable -> value; tagval: value of `tag` ('None'|'Complemented') or None"""
    t = strip_outer(strip_outer(txt.strip(), "{", "}"))
    c = compact(t)
    m = re.match(r"if\b", t)
    if m:
        i = t.index("{")
        cond = compact(t[m.end():i])
        then, end = block_after(t, i)
        rest = t[end:].strip()
        if not rest.startswith("else"):
            raise Unparsed("if without else " + t)
        els = rest[4:].strip()
        mc = re.fullmatch(r"tag(==|!=)(\S+)", cond) or None
        if mc is None:
            mc2 = re.fullmatch(r"(\S+?)(==|!=)tag", cond)
            if mc2:
                mc = re.fullmatch(r"tag(==|!=)(\S+)", "tag" + mc2.group(2) + mc2.group(1))
        if not mc or bc_tagname(mc.group(2)) is None or tagval is None:
            raise Unparsed("condition " + cond)
        holds = (bc_tagname(mc.group(2)) == tagval) == (mc.group(1) == "==")
        return bc_edge_expr(then if holds else els, env, names, tagval)
    m = re.fullmatch(r"manager\.clone_edge\(&?\*?(\w+)\)", c)
    if m:
        v = env.get(m.group(1))
        if v and v[0] == "edge":
            return v
        raise Unparsed("clone of " + m.group(1))
    m = re.fullmatch(r"not_owned\((.*)\)", c)
    if m:
        v = bc_edge_expr(m.group(1), env, names, tagval)
        if v[0] == "edge":
            return ("edge", v[1], not v[2])
        return ("const", f"(.not {v[1]})")
    m = re.fullmatch(r"get_terminal\(manager,(.*)\)", c)
    if m:
        return ("const", bc_bexpr(m.group(1), names))
    if re.fullmatch(r"\w+", c) and c in env:
        return env[c]
    raise Unparsed("edge expression " + txt)


def bc_res_lean(v):
    if v[0] == "edge":
        return f"(.{'neg' if v[2] else 'clone'} .{v[1]})"
    return f"(.const {v[1]})"


def bc_stmts(body):
    """split a block into top-level statements (text without the trailing `;`)"""
    out, depth, last = [], 0, 0
    for i, ch in enumerate(body):
        if ch in "([{":
            depth += 1
        elif ch in ")]}":
            depth -= 1
            if depth == 0 and ch == "}":
                # a block statement (`if .. { .. }`) ends at its brace unless followed by `else`, `;`, `)` …
                rest = body[i + 1:].lstrip()
                head = body[last:i + 1].lstrip()
                if re.match(r"(if|match)\b", head) and not rest.startswith(("else", ";", ".", "?")):
                    out.append(body[last:i + 1].strip())
                    last = i + 1
        elif ch == ";" and depth == 0:
            out.append(body[last:i].strip())
            last = i + 1
    if body[last:].strip():
        out.append(body[last:].strip())
    return [s for s in out if s]


def bc_run_tail(stmts, env, names, tagval):
    """straight-line tail `let x = e; … Done(..)` (or `return Done(..)`) -> symbolic result"""
    env = dict(env)
    for k, st in enumerate(stmts):
        m = re.fullmatch(r"let\s+(?:mut\s+)?(\w+)\s*=\s*(.*)", st, flags=re.S)
        if m:
            env[m.group(1)] = bc_edge_expr(m.group(2), env, names, tagval)
            continue
        c = compact(re.sub(r"^return\b", "", st.strip()))
        x = bc_unwrap_done(c)
        if x is None or k != len(stmts) - 1:
            raise Unparsed("statement " + st)
        return bc_edge_expr(x, env, names, tagval)
    raise Unparsed("no result")


def bc_kernel(src, fn):
    """`terminal_and` / `terminal_xor` -> [Lean KRow terms]; raises Unparsed"""
    bodies = fn_bodies(src, fn)
    if len(bodies) != 1:
        raise Unparsed(f"fn {fn} not found")
    stmts = [s for s in bc_stmts(bodies[0]) if not re.match(r"use\b", s)]
    names, untag = {}, {}
    env = {"f": ("edge", "f", False), "g": ("edge", "g", False)}
    k = 0
    while k < len(stmts):
        c = compact(stmts[k])
        m = re.fullmatch(r"let(\w+)=(f|g)\.tag\(\)", c)
        if m:
            names[m.group(1)] = m.group(2)
            k += 1
            continue
        m = re.fullmatch(r"let(\w+)=(f|g)\.with_tag\((?:EdgeTag::)?None\)", c)
        if m:
            untag[m.group(1)] = m.group(2)
            k += 1
            continue
        break
    if sorted(names.values()) != ["f", "g"] or sorted(untag.values()) != ["f", "g"]:
        raise Unparsed("tag / untagged-edge bindings " + " ; ".join(stmts[:4]))
    rows = []
    # (a) same-node test
    st = stmts[k]
    m = re.match(r"if\s+\*?(\w+)\s*==\s*\*?(\w+)\s*(?=\{)", st)
    if not m or sorted([untag.get(m.group(1)), untag.get(m.group(2))]) != ["f", "g"]:
        raise Unparsed("same-node test " + st)
    blk, end = block_after(st, m.end())
    if st[end:].strip():
        raise Unparsed("same-node test has an else part " + st[end:])
    inner = bc_stmts(blk)
    mi = re.match(r"if\s+(\w+)\s*(==|!=)\s*(\w+)\s*(?=\{)", inner[0]) if inner else None
    if mi and {mi.group(1), mi.group(3)} == set(names):
        b2, e2 = block_after(inner[0], mi.end())
        rest_else = inner[0][e2:].strip()
        first = bc_run_tail(bc_stmts(b2), env, names, None)
        if rest_else.startswith("else"):
            other = bc_run_tail(bc_stmts(strip_outer(rest_else[4:].strip(), "{", "}")), env, names, None)
            if len(inner) != 1:
                raise Unparsed("same-node block " + blk)
        else:
            other = bc_run_tail(inner[1:], env, names, None)
        eq_first = mi.group(2) == "=="
        rows.append(f"⟨.sameEq, {bc_res_lean(first if eq_first else other)}⟩")
        rows.append(f"⟨.sameNe, {bc_res_lean(other if eq_first else first)}⟩")
    else:
        rows.append(f"⟨.same, {bc_res_lean(bc_run_tail(inner, env, names, None))}⟩")
    k += 1
    # (b) the match on the node kinds
    st = stmts[k]
    m = re.match(r"let\s*\(\s*(\w+)\s*,\s*(\w+)\s*\)\s*=\s*match\s*\(\s*manager\.get_node\(&?(\w+)\)\s*,\s*manager\.get_node\(&?(\w+)\)\s*\)\s*(?=\{)", st)
    if not m or (m.group(3), m.group(4)) != ("f", "g"):
        raise Unparsed("node-kind match " + st)
    hvar, tagvar = m.group(1), m.group(2)
    if tagvar != "tag":
        raise Unparsed("tag variable must be called `tag`: " + tagvar)
    arms, end = block_after(st, m.end())
    if st[end:].strip():
        raise Unparsed("after node-kind match " + st[end:])
    tail = stmts[k + 1:]
    seen = set()
    for pat, res in split_arms(arms):
        pc = re.sub(r"Node::", "", compact(pat))
        mp = re.fullmatch(r"\((Inner|Terminal)\((\w+)\),(Inner|Terminal)\((\w+)\)\)", pc)
        if not mp:
            raise Unparsed("node-kind pattern " + pat)
        kind = (mp.group(1), mp.group(3))
        if kind in seen:
            raise Unparsed("duplicate node-kind pattern " + pat)
        seen.add(kind)
        rc = compact(strip_result(res))
        cond = {("Inner", "Inner"): ".innerInner", ("Terminal", "Terminal"): ".termTerm"}.get(kind)
        mn = re.fullmatch(r"(?:NodesOrDone::)?Nodes\((\w+),(\w+)\)", rc)
        if mn:
            if kind != ("Inner", "Inner") or (mn.group(1), mn.group(2)) != (mp.group(2), mp.group(4)):
                raise Unparsed("Nodes(..) arm " + pat + " => " + res)
            rows.append("⟨.innerInner, .nodes⟩")
            continue
        mt = re.fullmatch(r"\((f|g),(\w+)\)", rc)
        if mt:
            # falls through to the tail with h := side, tag := that operand's tag
            if mt.group(2) not in names:
                raise Unparsed("tag in " + res)
            tag_of = names[mt.group(2)]
            for tv in ("Complemented", "None"):
                e2 = dict(env)
                e2[hvar] = ("edge", mt.group(1), False)
                r = bc_run_tail(tail, e2, names, tv)
                if kind == ("Inner", "Terminal") and tag_of == "g":
                    rows.append(f"⟨.innerTerm {lean_bool(tv == 'Complemented')}, {bc_res_lean(r)}⟩")
                elif kind == ("Terminal", "Inner") and tag_of == "f":
                    rows.append(f"⟨.termInner {lean_bool(tv == 'Complemented')}, {bc_res_lean(r)}⟩")
                else:
                    # e.g. the inner operand's tag is consulted: no row type for that
                    raise Unparsed("tag of the wrong operand in " + pat + " => " + res)
            continue
        # an arm that returns by itself
        r = bc_run_tail(bc_stmts(strip_outer(res.strip(), "{", "}")), env, names, None)
        if cond is None:
            raise Unparsed("direct return in mixed arm " + pat)
        rows.append(f"⟨{cond}, {bc_res_lean(r)}⟩")
    if len(seen) != 4:
        raise Unparsed("node-kind match does not have the four arms")
    return rows


def bc_apply_bin(src):
    """the `match super::terminal_<k>(..)` blocks of `apply_bin` -> [Lean ARow terms], done arms ok?"""
    bodies = fn_bodies(src, "apply_bin")
    if len(bodies) != 1:
        raise Unparsed("fn apply_bin not found")
    body = bodies[0]
    rows, ops = [], []
    for m in re.finditer(r"match\s+(?:super::)?terminal_(and|xor)\(\s*manager\s*,\s*&f\s*,\s*&g\s*\)\s*(?=\{)", body):
        kern = m.group(1)
        # which operator block are we in?  `if OP == BCDDOp::And as u8 {` or `else { assert_eq!(OP, BCDDOp::Xor as u8);`
        before = body[:m.start()]
        mo = list(re.finditer(r"OP\s*==\s*BCDDOp::(\w+)\s+as\s+u8|assert_eq!\(\s*OP\s*,\s*BCDDOp::(\w+)\s+as\s+u8\s*\)", before))
        if not mo:
            raise Unparsed("operator test before terminal_" + kern)
        op = mo[-1].group(1) or mo[-1].group(2)
        ops.append(op)
        arms, _ = block_after(body, m.end())
        done = False
        for pat, res in split_arms(arms):
            pc = compact(pat).replace("NodesOrDone::", "")
            rc = compact(strip_result(res))
            md = re.fullmatch(r"Done\((\w+)\)", pc)
            if md:
                if rc not in (f"Ok({md.group(1)}.into_edge())", f"{md.group(1)}.into_edge()"):
                    raise Unparsed("Done arm " + res)
                done = True
                continue
            mn = re.fullmatch(r"Nodes\((\w+),(\w+)\)(?:if(f<g|g>f))?", pc)
            mr = re.fullmatch(r"\(BCDDOp::(\w+),(f|g)\.borrowed\(\),(\w+),(f|g)\.borrowed\(\),(\w+)\)", rc)
            if not mn or not mr:
                raise Unparsed("apply_bin arm " + pat + " => " + res)
            node_of = {"f": mn.group(1), "g": mn.group(2)}
            paired = (mr.group(2) != mr.group(4) and node_of[mr.group(2)] == mr.group(3) and node_of[mr.group(4)] == mr.group(5))
            rows.append(f'⟨"{op}", .{kern}, {lean_bool(mn.group(3) is not None)}, "{mr.group(1)}", .{mr.group(2)}, {lean_bool(paired)}⟩')
        if not done:
            raise Unparsed("no Done arm for terminal_" + kern)
    if not rows:
        raise Unparsed("no terminal_and/terminal_xor match in apply_bin")
    return rows


def bc_derivations(block, unparsed, where):
    """`<op>_edge` functions of one `impl BooleanFunction` block -> [Lean DRow terms]"""
    fns = {}
    for name in ("and", "or", "nand", "nor", "xor", "equiv", "imp", "imp_strict"):
        bs = fn_bodies(block, name + "_edge")
        if len(bs) == 1:
            fns[name] = bs[0]
        else:
            unparsed.append(desc(where, f"fn {name}_edge not found"))

    def operand(txt, env):
        c = compact(txt)
        m = re.fullmatch(r"not\(&?(\w+)\)", c)
        if m and m.group(1) in env and env[m.group(1)][0] == "edge":
            v = env[m.group(1)]
            return ("edge", v[1], not v[2])
        m = re.fullmatch(r"&?(\w+)(?:\.borrowed\(\))?", c)
        if m and m.group(1) in env and env[m.group(1)][0] == "edge":
            return env[m.group(1)]
        raise Unparsed("operand " + txt)

    def value(txt, env, depth):
        t = strip_outer(txt.strip())
        c = compact(t)
        if c.endswith("?"):
            return value(t.rstrip()[:-1], env, depth)
        m = re.fullmatch(r"Ok\((.*)\)", c)
        if m:
            return value(t[t.index("(") + 1:t.rindex(")")], env, depth)
        m = re.fullmatch(r"not_owned\((.*)\)", c)
        if m:
            v = value(t[t.index("(") + 1:t.rindex(")")], env, depth)
            if v[0] == "res":
                return ("res", v[1], v[2], v[3], not v[4])
            raise Unparsed("not_owned of an operand " + txt)
        m = re.match(r"(?:Self::)?(\w+)_edge\(", c)
        if m and m.group(1) in fns:
            args = split_top(t[t.index("(") + 1:t.rindex(")")], ",")
            args = [a for a in args if a.strip()]
            if len(args) != 3 or depth > 4:
                raise Unparsed("call " + txt)
            a, b = operand(args[1], env), operand(args[2], env)
            return run(m.group(1), a, b, depth + 1)
        m = re.match(r"apply_and\(", c)
        kern = "and" if m else None
        if not m:
            m = re.match(r"apply_bin::<[^>]*BCDDOp::(And|Xor)asu8\}?,?>\(", c)
            kern = m.group(1).lower() if m else None
        if kern:
            args = [a for a in split_top(t[t.index("(", t.index("apply_")) + 1:t.rindex(")")], ",") if a.strip()]
            if len(args) != 4:
                raise Unparsed("kernel call " + txt)
            return ("res", kern, operand(args[2], env), operand(args[3], env), False)
        if re.fullmatch(r"\w+", c) and c in env and env[c][0] == "res":
            return env[c]
        raise Unparsed("expression " + txt)

    def run(name, a, b, depth=0):
        env = {"lhs": a, "rhs": b}
        stmts = bc_stmts(fns[name])
        for k, st in enumerate(stmts):
            m = re.fullmatch(r"let\s+(\w+)\s*=\s*(.*)", st, flags=re.S)
            if m:
                rhs = m.group(2)
                if re.match(r"(SequentialRecursor|ParallelRecursor::new\(manager\))\s*$", rhs.strip()):
                    env[m.group(1)] = ("rec",)
                    continue
                try:
                    env[m.group(1)] = operand(rhs, env)
                except Unparsed:
                    env[m.group(1)] = value(rhs, env, depth)
                continue
            m = re.fullmatch(r"let\s*\(([^)]*)\)\s*=\s*\((.*)\)", st, flags=re.S)
            if m:
                vs = [v.strip() for v in m.group(1).split(",") if v.strip()]
                es = [e for e in split_top(m.group(2), ",") if e.strip()]
                if len(vs) != len(es):
                    raise Unparsed("tuple binding " + st)
                new = [operand(e, env) for e in es]
                for v, e in zip(vs, new):
                    env[v] = e
                continue
            if k != len(stmts) - 1:
                raise Unparsed("statement " + st)
            return value(re.sub(r"^return\b", "", st), env, depth)
        raise Unparsed("no result in " + name + "_edge")

    rows = []
    for name in ("and", "or", "nand", "nor", "xor", "equiv", "imp", "imp_strict"):
        if name not in fns:
            continue
        try:
            v = run(name, ("edge", "f", False), ("edge", "g", False))
            if v[0] != "res" or {v[2][1], v[3][1]} != {"f", "g"}:
                raise Unparsed("result does not apply a kernel to both operands")
            swapped = v[2][1] == "g"
            fa, ga = (v[3], v[2]) if swapped else (v[2], v[3])
            opname = {"and": "And", "or": "Or", "nand": "Nand", "nor": "Nor", "xor": "Xor", "equiv": "Equiv", "imp": "Imp", "imp_strict": "ImpStrict"}[name]
            rows.append(f'⟨"{opname}", .{v[1]}, {lean_bool(fa[2])}, {lean_bool(ga[2])}, {lean_bool(v[4])}, {lean_bool(swapped)}⟩')
        except Unparsed as e:
            unparsed.append(desc(f"{where} {name}_edge", str(e)))
    return rows


def bc_tag_tables(src, unparsed):
    """`impl Not for EdgeTag`, `impl BitXor for EdgeTag`, `get_terminal`, `not`, `not_owned`"""
    nt, bx, gt, nots = [], [], [], []
    try:
        m = re.search(r"impl\s+(?:std::ops::)?Not\s+for\s+EdgeTag\b", src)
        blk, _ = block_after(src, m.end())
        body = fn_bodies(blk, "not")[0]
        mm = re.match(r"\s*match\s+self\s*(?=\{)", body)
        arms, _ = block_after(body, mm.end())
        for pat, res in split_arms(arms):
            a, b = bc_tagname(pat), bc_tagname(strip_result(res))
            if a is None or b is None:
                raise Unparsed("arm " + pat + " => " + res)
            nt.append((a, b))
    except Exception as e:
        unparsed.append(desc("impl Not for EdgeTag", str(e) if isinstance(e, Unparsed) else repr(e)))
    try:
        m = re.search(r"impl\s+(?:std::ops::)?BitXor\s+for\s+EdgeTag\b", src)
        blk, _ = block_after(src, m.end())
        body = re.sub(r"^\s*(?:use\s+[^;]*;\s*)*", "", fn_bodies(blk, "bitxor")[0])
        mm = re.match(r"\s*match\s*\(\s*self\s*,\s*rhs\s*\)\s*(?=\{)", body)
        arms, _ = block_after(body, mm.end())
        for pat, res in split_arms(arms):
            mp = re.fullmatch(r"\((\S+),(\S+)\)", compact(pat))
            vals = (bc_tagname(mp.group(1)), bc_tagname(mp.group(2)), bc_tagname(strip_result(res))) if mp else (None,)
            if None in vals:
                raise Unparsed("arm " + pat + " => " + res)
            bx.append(vals)
    except Exception as e:
        unparsed.append(desc("impl BitXor for EdgeTag", str(e) if isinstance(e, Unparsed) else repr(e)))
    try:
        body = [b for b in fn_bodies(src, "get_terminal") if "val" in b][0]
        c = compact(body)
        m = re.fullmatch(r"let(\w+)=manager\.get_terminal\(BCDDTerminal\)\.unwrap\(\);ifval\{(.*?)\}else\{(.*?)\}", c)
        if not m:
            raise Unparsed(body)
        for val, e in (("true", m.group(2)), ("false", m.group(3))):
            if e == m.group(1):
                gt.append((val, "None"))
            else:
                mt = re.fullmatch(m.group(1) + r"\.with_tag_owned\((?:EdgeTag::)?(None|Complemented)\)", e)
                if not mt:
                    raise Unparsed("branch " + e)
                gt.append((val, mt.group(1)))
    except Exception as e:
        unparsed.append(desc("fn get_terminal", str(e) if isinstance(e, Unparsed) else repr(e)))
    for name, setter in (("not_owned", "with_tag_owned"), ("not", "with_tag")):
        try:
            bs = [b for b in fn_bodies(src, name) if "match self" not in b]
            c = compact(bs[0]) if bs else ""
            m = re.fullmatch(r"let(\w+)=e\.tag\(\);e\." + setter + r"\(!(\w+)\)", c)
            if not m or m.group(1) != m.group(2):
                raise Unparsed(bs[0] if bs else "not found")
            nots.append(name)
        except Exception as e:
            unparsed.append(desc("fn " + name, str(e) if isinstance(e, Unparsed) else repr(e)))
    return nt, bx, gt, nots


def gen_bcdd_kernels(read_):
    unparsed = []
    kern = {"and": [], "xor": []}
    arows, drows, drows_mt = [], [], []
    nt, bx, gt, nots = [], [], [], []
    try:
        mod = strip_comments(read_("crates/oxidd-rules-bdd/src/complement_edge/mod.rs"))
        app = strip_comments(read_("crates/oxidd-rules-bdd/src/complement_edge/apply_rec.rs"))
        for k in ("and", "xor"):
            try:
                kern[k] = bc_kernel(mod, "terminal_" + k)
            except Exception as e:
                unparsed.append(desc("terminal_" + k, str(e) if isinstance(e, Unparsed) else repr(e)))
        try:
            arows = bc_apply_bin(app)
        except Exception as e:
            unparsed.append(desc("apply_bin", str(e) if isinstance(e, Unparsed) else repr(e)))
        impls = [m for m in re.finditer(r"impl\s*<[^{]*?>\s*BooleanFunction\s+for\s+BCDDFunction(MT)?\b", app)]
        seen = set()
        for m in impls:
            blk, _ = block_after(app, m.end())
            if m.group(1):
                drows_mt = bc_derivations(blk, unparsed, "BooleanFunction for BCDDFunctionMT")
            else:
                drows = bc_derivations(blk, unparsed, "BooleanFunction for BCDDFunction")
            seen.add(bool(m.group(1)))
        if seen != {True, False}:
            unparsed.append(desc("apply_rec.rs", "impl BooleanFunction for BCDDFunction / BCDDFunctionMT not both found"))
        nt, bx, gt, nots = bc_tag_tables(mod, unparsed)
    except Exception as e:
        unparsed.append(desc("extractor exception", repr(e)))
    L = ["import OxiddModel.Generated.RulesBcdd", GEN_HEADER, "namespace OxiddModel.Generated\n"]
    for k in ("and", "xor"):
        L.append(f"/-- `terminal_{k}` (`complement_edge/mod.rs`) as a decision list, in the order the code tests the cases -/")
        L.append(f"def kernelRows_{k} : List Bc.KRow :=\n  [" + ",\n   ".join(kern[k]) + "]")
    L.append("/-- the `Nodes(..)` arms of `apply_bin` (`complement_edge/apply_rec.rs`) -/")
    L.append("def applyBinRows : List Bc.ARow :=\n  [" + ",\n   ".join(arows) + "]")
    L.append("/-- `impl BooleanFunction for BCDDFunction`: each `<op>_edge` as `[¬] kernel([¬]lhs, [¬]rhs)` (calls followed) -/")
    L.append("def deriveRows : List Bc.DRow :=\n  [" + ",\n   ".join(drows) + "]")
    L.append("/-- … and for the multi-threaded `BCDDFunctionMT` -/")
    L.append("def deriveRowsMT : List Bc.DRow :=\n  [" + ",\n   ".join(drows_mt) + "]")
    L.append("/-- `impl Not for EdgeTag` -/")
    L.append("def tagNot : List (String × String) := " + lean_list([f'("{a}", "{b}")' for a, b in nt]))
    L.append("/-- `impl BitXor for EdgeTag` -/")
    L.append("def tagXor : List (String × String × String) := " + lean_list([f'("{a}", "{b}", "{c}")' for a, b, c in bx]))
    L.append("/-- `get_terminal(manager, val)`: value ↦ tag of the edge to the single terminal -/")
    L.append("def getTerminalTag : List (Bool × String) := " + lean_list([f'({a}, "{b}")' for a, b in gt]))
    L.append("/-- the functions among `not`, `not_owned` recognised as `e.with_tag(!e.tag())` -/")
    L.append("def tagFlippers : List String := " + lean_strs(nots))
    L.append("/-- constructs of the BCDD kernels / dispatch that the extractor does not recognise -/")
    L.append(f"def bcddKernelsUnparsed : List String := {lean_strs(unparsed)}")
    L.append("\nend OxiddModel.Generated")
    return {"SrcBcddKernels.lean": "\n".join(L) + "\n"}


# ---- ZBDD set operations `apply_union/intsec/diff/symm_diff` -----------------------------------

ZB_FNS = [("union", "apply_union", "Union"), ("intsec", "apply_intsec", "Intsec"), ("diff", "apply_diff", "Diff"), ("symmDiff", "apply_symm_diff", "SymmDiff")]


def zb_atom(txt):
    c = compact(strip_outer(txt))
    for a, b in ((r"\*?f", r"\*?g"), (r"\*?g", r"\*?f")):
        if re.fullmatch(a + "==" + b, c):
            return ".fEqG"
    m = re.fullmatch(r"\*(f|g)==\*empty", c) or re.fullmatch(r"\*empty==\*(f|g)", c)
    if m:
        return ".fEmpty" if m.group(1) == "f" else ".gEmpty"
    raise Unparsed("condition atom " + txt)


def zb_opnd(txt, env):
    c = compact(txt)
    m = re.fullmatch(r"&?(\w+)(?:\.borrowed\(\))?", c)
    if m and m.group(1) in env and env[m.group(1)][0] == "o":
        return env[m.group(1)][1]
    raise Unparsed("operand " + txt)


def zb_arm(block, fname, env0):
    """one arm of `match flevel.cmp(&glevel)` -> Lean RArm term"""
    env = dict(env0)
    stmts = bc_stmts(strip_outer(block.strip(), "{", "}"))

    def rec_call(txt):
        t = txt.strip()
        if t.endswith("?"):
            t = t[:-1].strip()
        m = re.fullmatch(fname + r"\(\s*manager\s*,\s*rec\s*,(.*)\)", t, flags=re.S)
        if not m:
            return None
        args = [a for a in split_top(m.group(1), ",") if a.strip()]
        if len(args) != 2:
            raise Unparsed("recursive call " + txt)
        return (zb_opnd(args[0], env), zb_opnd(args[1], env))

    for k, st in enumerate(stmts):
        m = re.fullmatch(r"let\s*\(\s*(\w+)\s*,\s*(\w+)\s*\)\s*=\s*collect_children\(\s*(f|g)node\.unwrap_inner\(\)\s*\)", st)
        if m:
            env[m.group(1)] = ("o", m.group(3) + "hi")
            env[m.group(2)] = ("o", m.group(3) + "lo")
            continue
        m = re.fullmatch(r"let\s+(\w+)\s*=\s*(f|g)node\.unwrap_inner\(\)\.child\(\s*(LO|HI)\s*\)", st)
        if m:
            env[m.group(1)] = ("o", m.group(2) + m.group(3).lower())
            continue
        m = re.fullmatch(r"let\s*\(\s*(\w+)\s*,\s*(\w+)\s*\)\s*=\s*rec\.binary\(\s*" + fname + r"\s*,\s*manager\s*,\s*\((.*?)\)\s*,\s*\((.*?)\)\s*,?\s*\)\?", st, flags=re.S)
        if m:
            p1 = [a for a in split_top(m.group(3), ",") if a.strip()]
            p2 = [a for a in split_top(m.group(4), ",") if a.strip()]
            if len(p1) != 2 or len(p2) != 2:
                raise Unparsed("rec.binary " + st)
            env[m.group(1)] = ("r", zb_opnd(p1[0], env), zb_opnd(p1[1], env))
            env[m.group(2)] = ("r", zb_opnd(p2[0], env), zb_opnd(p2[1], env))
            continue
        m = re.fullmatch(r"let\s+(\w+)\s*=\s*(.*)", st, flags=re.S)
        if m:
            r = rec_call(m.group(2))
            if r is None:
                raise Unparsed("binding " + st)
            env[m.group(1)] = ("r",) + r
            continue
        if k != len(stmts) - 1:
            raise Unparsed("statement " + st)
        t = re.sub(r"^return\b", "", st).strip()
        r = rec_call(t)
        if r is not None:
            return f"(.direct .{r[0]} .{r[1]})"
        m = re.fullmatch(r"(reduce|reduce_borrowed)\(\s*manager\s*,\s*(f|g)level\s*,(.*)\)", t, flags=re.S)
        if not m:
            raise Unparsed("result " + st)
        args = [a for a in split_top(m.group(3), ",") if a.strip()]
        if len(args) != 3:
            raise Unparsed("reduce arguments " + st)
        ch = []
        for a in args[:2]:
            v = env.get(re.sub(r"\.into_edge\(\)$", "", compact(a)))
            if v is None:
                raise Unparsed("child " + a)
            ch.append(f"(.thru .{v[1]})" if v[0] == "o" else f"(.call .{v[1]} .{v[2]})")
        return f"(.node {lean_bool(m.group(2) == 'f')} {ch[0]} {ch[1]})"
    raise Unparsed("empty arm")


def zb_fn(src, lean_op, fname, tag):
    bodies = fn_bodies(src, fname)
    if len(bodies) != 1:
        raise Unparsed(f"fn {fname} not found")
    stmts = bc_stmts(bodies[0])
    term, swap = [], False
    k = 0
    # prologue up to the cache query
    while k < len(stmts):
        st = stmts[k]
        c = compact(st)
        if re.match(r"if\s+rec\.should_switch_to_sequential\(\)", st) or re.match(r"use\b", st) or re.match(r"stat!", st):
            k += 1
            continue
        if re.fullmatch(r"letempty=EdgeDropGuard::new\(manager,manager\.get_terminal\(ZBDDTerminal::Empty\)\.unwrap\(\)\)", c):
            k += 1
            continue
        m = re.match(r"if\s+(?!let\b)(.*?)\s*(?=\{)", st, flags=re.S)
        if m and "apply_cache" not in st:
            blk, end = block_after(st, m.end())
            if st[end:].strip():
                raise Unparsed("terminal case with else " + st)
            if swap:
                raise Unparsed("terminal case after the operand swap " + st)
            atoms = [zb_atom(a) for a in split_top(m.group(1), "||")]
            r = compact(strip_result(blk))
            res = {"manager.clone_edge(&f)": ".cloneF", "manager.clone_edge(&g)": ".cloneG", "empty.into_edge()": ".empty"}.get(r)
            if res is None or not re.match(r"\s*return\b", blk):
                raise Unparsed("terminal case result " + blk)
            term.append(f"⟨{lean_list(atoms)}, {res}⟩")
            k += 1
            continue
        if re.fullmatch(r"let\(f,g\)=iff>g\{\(g,f\)\}else\{\(f,g\)\}", c) or re.fullmatch(r"let\(f,g\)=ifg<f\{\(g,f\)\}else\{\(f,g\)\}", c) \
                or re.fullmatch(r"let\(f,g\)=iff<g\{\(f,g\)\}else\{\(g,f\)\}", c) or re.fullmatch(r"let\(f,g\)=iff<=g\{\(f,g\)\}else\{\(g,f\)\}", c):
            swap = True
            k += 1
            continue
        break
    rest = stmts[k:]
    text = " ; ".join(rest)
    mg = re.search(r"\.apply_cache\(\)\s*\.get\(\s*manager\s*,\s*(?:ZBDDOp::)?(\w+)\s*,\s*&\[\s*(\w+)\.borrowed\(\)\s*,\s*(\w+)\.borrowed\(\)\s*\]\s*\)", text)
    ma = re.search(r"\.apply_cache\(\)\s*\.add\(\s*manager\s*,\s*(?:ZBDDOp::)?(\w+)\s*,\s*&\[\s*(\w+)(?:\.borrowed\(\))?\s*,\s*(\w+)(?:\.borrowed\(\))?\s*\]\s*,\s*h\.borrowed\(\)\s*,?\s*\)", text)
    if not mg or not ma:
        raise Unparsed("apply cache get/add")
    key_ok = (mg.group(2), mg.group(3)) == ("f", "g") and (ma.group(2), ma.group(3)) == ("f", "g")
    # statements between: fnode/gnode/flevel/glevel bindings, then `let h = match flevel.cmp(&glevel) {..}?`
    expect = {"fnode": "manager.get_node(&f)", "gnode": "manager.get_node(&g)", "flevel": "fnode.level()", "glevel": "gnode.level()"}
    arms = None
    for st in rest:
        c = compact(st)
        m = re.fullmatch(r"let(\w+)=(.*)", c)
        if m and m.group(1) in expect:
            if m.group(2) != expect[m.group(1)]:
                raise Unparsed("binding " + st)
            del expect[m.group(1)]
            continue
        m = re.match(r"let\s+h\s*=\s*match\s+flevel\.cmp\(\s*&glevel\s*\)\s*(?=\{)", st)
        if m:
            body, end = block_after(st, m.end())
            if compact(st[end:]) != "?":
                raise Unparsed("after the level match " + st[end:])
            arms = split_arms(body)
    if expect or arms is None:
        raise Unparsed("node/level bindings or level match missing")
    env0 = {"f": ("o", "f"), "g": ("o", "g")}
    got = {}
    for pat, res in arms:
        key = re.sub(r"^(?:std::cmp::|cmp::)?Ordering::", "", compact(pat))
        if key not in ("Less", "Equal", "Greater") or key in got:
            raise Unparsed("level arm " + pat)
        got[key] = zb_arm(res, fname, env0)
    if len(got) != 3:
        raise Unparsed("level match needs Less/Equal/Greater")
    return (f"⟨.{lean_op}, {lean_list(term)}, {lean_bool(swap)}, \"{mg.group(1)}\", \"{ma.group(1)}\", {lean_bool(key_ok)},\n"
            f"    {got['Less']},\n    {got['Equal']},\n    {got['Greater']}⟩")


def gen_zbdd_apply(read_):
    unparsed, fns = [], []
    try:
        src = strip_comments(read_("crates/oxidd-rules-zbdd/src/apply_rec.rs"))
        for lean_op, fname, tag in ZB_FNS:
            try:
                fns.append(zb_fn(src, lean_op, fname, tag))
            except Exception as e:
                unparsed.append(desc(fname, str(e) if isinstance(e, Unparsed) else repr(e)))
    except Exception as e:
        unparsed.append(desc("extractor exception", repr(e)))
    L = ["import OxiddModel.Generated.RulesZbdd", GEN_HEADER, "namespace OxiddModel.Generated\n"]
    L.append("/-- `apply_union`, `apply_intsec`, `apply_diff`, `apply_symm_diff` (`oxidd-rules-zbdd/src/apply_rec.rs`): terminal cases, operand normalisation, cache tags, and the three arms of `match flevel.cmp(&glevel)` -/")
    L.append("def zbddApplyFns : List Zb.ZFn :=\n  [" + ",\n   ".join(fns) + "]")
    L.append("/-- constructs of these functions that the extractor does not recognise -/")
    L.append(f"def zbddApplyUnparsed : List String := {lean_strs(unparsed)}")
    L.append("\nend OxiddModel.Generated")
    return {"SrcZbddApply.lean": "\n".join(L) + "\n"}


# ---- `reduce` of every kind -----------------------------------------------------------------------

def fn_defs(src, name):
    """[(signature text, body)] of all `fn <name>` definitions with a body (comments stripped by caller)"""
    out = []
    for m in re.finditer(r"fn " + name + r"\b", src):
        depth, j = 0, m.end()
        # the body's `{` is the first one at bracket depth 0 (generics `<..>` contain no braces)
        while j < len(src) and not (src[j] == "{" and depth == 0) and not (src[j] == ";" and depth == 0):
            if src[j] in "([":
                depth += 1
            elif src[j] in ")]":
                depth -= 1
            j += 1
        if j < len(src) and src[j] == "{":
            body, _ = block_after(src, j)
            out.append((src[m.start():j], body))
    return out


def rd_child(txt, names):
    """`t`, `t.into_edge()`, `manager.clone_edge(&hi)` -> position"""
    c = compact(txt)
    m = re.fullmatch(r"(?:manager\.clone_edge\(&(\w+)\)|(\w+)(?:\.into_edge\(\))?)", c)
    v = (m.group(1) or m.group(2)) if m else None
    if v in names:
        return names.index(v)
    raise Unparsed("child " + txt)


def rd_cond(cond, names):
    c = compact(strip_outer(cond))
    m = re.fullmatch(r"manager\.get_node\(&(\w+)\)\.is_terminal\(&ZBDDTerminal::Empty\)", c)
    if m and m.group(1) in names:
        return f"(.isEmpty {names.index(m.group(1))})"
    comp = {n: {n} for n in names}
    used = set()
    for part in split_top(c, "&&"):
        mm = re.fullmatch(r"(\w+)==(\w+)", strip_outer(part))
        if not mm or mm.group(1) not in names or mm.group(2) not in names:
            raise Unparsed("condition " + cond)
        a, b = mm.group(1), mm.group(2)
        merged = comp[a] | comp[b]
        for x in merged:
            comp[x] = merged
        used |= {a, b}
    groups = {frozenset(comp[u]) for u in used}
    if len(groups) != 1:
        raise Unparsed("condition does not connect its operands " + cond)
    idxs = sorted(names.index(x) for x in next(iter(groups)))
    return f"(.allEq {lean_list([str(i) for i in idxs])})"


def rd_names(sig, body):
    names = re.findall(r"let\s+(?:mut\s+)?(\w+)\s*=\s*it\.next\(\)\.unwrap\(\)", body)
    if names:
        return names
    return re.findall(r"(\w+)\s*:\s*(?:Borrowed<\s*)?M::Edge\b", sig)


def rd_plain(kind, label, sig, body, dr_row):
    """a reduce function of a kind without tags -> fields of a RedRow (dict)"""
    names = rd_names(sig, body)
    if not names:
        raise Unparsed("children not found in " + sig)
    m = re.search(r"<\s*\w+\s+as\s+DiagramRules<[^>]*>>::reduce\(\s*manager\s*,\s*level\s*,\s*\[(.*?)\]\s*,?\s*\)", body, flags=re.S)
    if m:
        order = [rd_child(a, names) for a in split_top(m.group(1), ",") if a.strip()]
        if dr_row is None or order != list(range(len(names))) or len(names) != dr_row["arity"]:
            raise Unparsed("delegation to DiagramRules::reduce permutes or drops children")
        return dict(dr_row, fn=label, delegates=True)
    stmts = bc_stmts(body)
    cond = ret = None
    for st in stmts:
        mi = re.match(r"if\s+(?!let\b)(.*?)\s*(?=\{)", st, flags=re.S)
        if not mi:
            continue
        blk, end = block_after(st, mi.end())
        cond = rd_cond(mi.group(1), names)
        mr = re.search(r"(?:ReducedOrNew::Reduced\(|\bOk\()\s*(\w+)(?:\.into_edge\(\))?\s*\)", blk)
        if not mr or mr.group(1) not in names:
            raise Unparsed("reduced result " + blk)
        ret = names.index(mr.group(1))
        break
    if cond is None:
        raise Unparsed("no reduction test")
    news = re.findall(r"(?:\bN|M::InnerNode)::new\(\s*level\s*,\s*\[(.*?)\]\s*,?\s*\)", body, flags=re.S)
    if len(news) != 1:
        raise Unparsed(f"{len(news)} node constructions")
    children = [rd_child(a, names) for a in split_top(news[0], ",") if a.strip()]
    return dict(kind=kind, fn=label, arity=len(names), cond=cond, ret=ret, children=children, delegates=False)


def rd_tagop(txt, names, tagvars):
    """child of a BCDD node -> (position, TagOp)"""
    c = compact(txt)
    m = re.fullmatch(r"(\w+)\.with_tag_owned\((.*)\)", c)
    if not m:
        return (rd_child(txt, names), ".keep")
    if m.group(1) not in names:
        raise Unparsed("child " + txt)
    i, a = names.index(m.group(1)), m.group(2)
    if bc_tagname(a) == "None":
        return (i, ".setNone")
    if bc_tagname(a) == "Complemented":
        return (i, ".setCompl")
    mm = re.fullmatch(r"!(\w+)", a)
    if mm and tagvars.get(mm.group(1)) == m.group(1):
        return (i, ".flip")
    raise Unparsed("tag of child " + txt)


def rd_bcdd(label, sig, body):
    names = rd_names(sig, body)
    if len(names) != 2:
        raise Unparsed("children not found in " + sig)
    stmts = bc_stmts(body)
    eq_ret = None
    tagvars = {m.group(1): m.group(2) for m in re.finditer(r"let\s+(\w+)\s*=\s*(\w+)\.tag\(\)", body)}
    arms = None
    for st in stmts:
        mi = re.match(r"(?:let\s*\(\s*\w+\s*,\s*\w+\s*\)\s*=\s*)?if\s+(.*?)\s*(?=\{)", st, flags=re.S)
        if not mi:
            continue
        blk, end = block_after(st, mi.end())
        c = compact(mi.group(1))
        if eq_ret is None:
            if rd_cond(mi.group(1), names) != "(.allEq [0, 1])":
                raise Unparsed("first test " + mi.group(1))
            mr = re.search(r"(?:ReducedOrNew::Reduced\(|\bOk\()\s*(\w+)\s*\)", blk)
            if not mr or mr.group(1) not in names:
                raise Unparsed("reduced result " + blk)
            eq_ret = names.index(mr.group(1))
            continue
        mt = re.fullmatch(r"(\w+)(==|!=)(\S+)", c)
        if not mt or mt.group(1) not in tagvars:  # constant on the left
            m2 = re.fullmatch(r"(\S+?)(==|!=)(\w+)", c)
            mt = re.fullmatch(r"(\w+)(==|!=)(\S+)", m2.group(3) + m2.group(2) + m2.group(1)) if m2 else None
        if not mt or mt.group(1) not in tagvars or bc_tagname(mt.group(3)) is None:
            raise Unparsed("tag test " + mi.group(1))
        rest = st[end:].strip()
        if not rest.startswith("else"):
            raise Unparsed("tag test without else")
        els, _ = block_after(rest, 4)
        compl_first = (bc_tagname(mt.group(3)) == "Complemented") == (mt.group(2) == "==")
        arms = (names.index(tagvars[mt.group(1)]), blk if compl_first else els, els if compl_first else blk)
    if eq_ret is None or arms is None:
        raise Unparsed("reduction test or tag test missing")

    def arm(txt):
        news = re.findall(r"(?:\bN|M::InnerNode)::new\(\s*level\s*,\s*\[(.*?)\]\s*,?\s*\)", txt, flags=re.S)
        outs = re.findall(r"EdgeTag::(None|Complemented)\s*\)\s*;?\s*$", txt.strip())
        if len(news) != 1 or len(outs) != 1:
            raise Unparsed("arm " + txt)
        ch = [rd_tagop(a, names, tagvars) for a in split_top(news[0], ",") if a.strip()]
        return lean_list([f"({i}, {o})" for i, o in ch]), outs[0]

    cc, co = arm(arms[1])
    pc, po = arm(arms[2])
    return f'⟨"{label}", {eq_ret}, {arms[0]}, {cc}, "{co}", {pc}, "{po}"⟩'


def gen_reduce(read_):
    unparsed, rows, brows = [], [], []
    kinds = [("bdd", "crates/oxidd-rules-bdd/src/simple/mod.rs", ["reduce"]),
             ("zbdd", "crates/oxidd-rules-zbdd/src/lib.rs", ["reduce", "reduce_borrowed", "reduce1"]),
             ("mtbdd", "crates/oxidd-rules-mtbdd/src/lib.rs", ["reduce"]),
             ("tdd", "crates/oxidd-rules-tdd/src/lib.rs", ["reduce"])]
    for kind, path, fns in kinds:
        try:
            src = strip_comments(read_(path))
            defs = fn_defs(src, "reduce")
            dr = [d for d in defs if "children" in d[0] and "IntoIterator" in d[0]]
            free = [d for d in defs if d not in dr]
            dr_row = None
            if len(dr) == 1:
                try:
                    dr_row = rd_plain(kind, "DiagramRules::reduce", dr[0][0], dr[0][1], None)
                    rows.append(dr_row)
                except Exception as e:
                    unparsed.append(desc(f"{kind} DiagramRules::reduce", str(e) if isinstance(e, Unparsed) else repr(e)))
            else:
                unparsed.append(desc(kind, "DiagramRules::reduce not found"))
            for fn in fns:
                ds = free if fn == "reduce" else fn_defs(src, fn)
                if len(ds) != 1:
                    unparsed.append(desc(kind, f"fn {fn} not found"))
                    continue
                try:
                    rows.append(rd_plain(kind, fn, ds[0][0], ds[0][1], dr_row))
                except Exception as e:
                    unparsed.append(desc(f"{kind} {fn}", str(e) if isinstance(e, Unparsed) else repr(e)))
        except Exception as e:
            unparsed.append(desc(kind, repr(e)))
    try:
        src = strip_comments(read_("crates/oxidd-rules-bdd/src/complement_edge/mod.rs"))
        defs = fn_defs(src, "reduce")
        if len(defs) != 2:
            unparsed.append(desc("bcdd", f"{len(defs)} reduce functions"))
        for sig, body in defs:
            label = "DiagramRules::reduce" if "IntoIterator" in sig else "reduce"
            try:
                brows.append(rd_bcdd(label, sig, body))
            except Exception as e:
                unparsed.append(desc("bcdd " + label, str(e) if isinstance(e, Unparsed) else repr(e)))
    except Exception as e:
        unparsed.append(desc("bcdd", repr(e)))
    L = ["import OxiddModel.Generated.RulesReduce", GEN_HEADER, "namespace OxiddModel.Generated\n"]
    items = [f'⟨"{r["kind"]}", "{r["fn"]}", {r["arity"]}, {r["cond"]}, {r["ret"]}, {lean_list([str(c) for c in r["children"]])}, {lean_bool(r["delegates"])}⟩' for r in rows]
    L.append("/-- `DiagramRules::reduce` and the free `reduce…` functions of the kinds without edge tags -/")
    L.append("def reduceRows : List Rd.RedRow :=\n  [" + ",\n   ".join(items) + "]")
    L.append("/-- the two BCDD reduction functions (`complement_edge/mod.rs`) with their tag normalisation -/")
    L.append("def reduceRowsBcdd : List Rd.BcddRed :=\n  [" + ",\n   ".join(brows) + "]")
    L.append("/-- constructs of the reduction functions that the extractor does not recognise -/")
    L.append(f"def reduceUnparsed : List String := {lean_strs(unparsed)}")
    L.append("\nend OxiddModel.Generated")
    return {"SrcReduce.lean": "\n".join(L) + "\n"}


def lean_list(xs):
    return "[" + ", ".join(xs) + "]"


def main():
    bdd = read("crates/oxidd-rules-bdd/src/simple/mod.rs")
    bcdd = read("crates/oxidd-rules-bdd/src/complement_edge/mod.rs")
    bcdd_apply = read("crates/oxidd-rules-bdd/src/complement_edge/apply_rec.rs")
    zbdd = read("crates/oxidd-rules-zbdd/src/lib.rs")
    mtbdd = read("crates/oxidd-rules-mtbdd/src/lib.rs")
    tdd = read("crates/oxidd-rules-tdd/src/lib.rs")
    raw = read("crates/linear-hashtbl/src/raw.rs")
    mgr = read("crates/oxidd-manager-index/src/manager.rs")

    enums = {
        "BDDOp": enum_variants(bdd, "BDDOp"),
        "BCDDOp": enum_variants(bcdd, "BCDDOp"),
        "ZBDDOp": enum_variants(zbdd, "ZBDDOp"),
        "MTBDDOp": enum_variants(mtbdd, "MTBDDOp"),
        "TDDOp": enum_variants(tdd, "TDDOp"),
    }
    memos = {
        "bdd": memo_tags(bdd, "BDDOp"),
        "mtbdd": memo_tags(mtbdd, "MTBDDOp"),
        "tdd": memo_tags(tdd, "TDDOp"),
    }
    trules = {"bdd": terminal_rules(bdd, "BDDOp"), "tdd": terminal_rules(tdd, "TDDOp")}
    kern = {"OA": "and", "OX": "xor", "ONA": "nand"}
    disp = dispatch_rows(bcdd_apply, "apply_quant_dispatch", kern)
    dispu = dispatch_rows(bcdd_apply, "apply_quant_unique_dispatch", kern)
    ratio_n, ratio_d, min_cap = const_usize(raw, "RATIO_N"), const_usize(raw, "RATIO_D"), const_usize(raw, "MIN_CAP")
    m = re.search(r"let gc_lwm = inner_node_capacity / 100 \* (\d+);\s*let gc_hwm = inner_node_capacity / 100 \* (\d+);", mgr)
    if not m:
        die("gc water marks not found")
    lwm, hwm = int(m.group(1)), int(m.group(2))

    ord_files = [
        ("index/node", "crates/oxidd-manager-index/src/node/fixed_arity.rs"),
        ("index/manager", "crates/oxidd-manager-index/src/manager.rs"),
        ("index/terminals", "crates/oxidd-manager-index/src/terminal_manager/dynamic.rs"),
        ("index/trylock", "crates/oxidd-manager-index/src/util/mod.rs"),
        ("pointer/node", "crates/oxidd-manager-pointer/src/node/fixed_arity.rs"),
        ("pointer/manager", "crates/oxidd-manager-pointer/src/manager.rs"),
        ("pointer/trylock", "crates/oxidd-manager-pointer/src/util/mod.rs"),
        ("cache/spinlock", "crates/oxidd-cache/src/util.rs"),
    ]
    rel, lic, fen, lk, ul = [], [], [], [], []
    for tag, f in ord_files:
        a, b, c, d, e = orderings(tag, read(f))
        rel += a; lic += b; fen += c; lk += d; ul += e
    if len(rel) < 3 or len(lic) < 4 or not lk or not ul:
        die(f"memory orderings: expected the reference-count decrements (found {len(rel)}), the loads licensing a free (found {len(lic)}), lock/unlock sites (found {len(lk)}/{len(ul)})")

    L = []
    L.append("/-! GENERATED by tools/extract_tables.py from /repo's current source — do not edit. -/")
    L.append("namespace OxiddModel.Generated\n")
    for name, vs in enums.items():
        L.append(f"def enum{name} : List String := {lean_list([chr(34) + v + chr(34) for v in vs])}")
    L.append("")
    for k, rows in memos.items():
        items = [f'("{op}", {lean_list([chr(34) + t + chr(34) for t in tags])})' for op, tags in rows]
        L.append(f"/-- `terminal_bin` ({k}): operator block ↦ tags of its `Binary(tag, ..)` results -/")
        L.append(f"def memoTags_{k} : List (String × List String) := {lean_list(items)}")
    L.append("")
    L.append("/-- a dispatch row: operator, quantifier swapped (`QN` instead of `Q`), inner kernel, ¬f, ¬g, ¬result -/")
    L.append("structure Row where\n  op : String\n  swapped : Bool\n  kernel : String\n  negF : Bool\n  negG : Bool\n  negRes : Bool\nderiving DecidableEq, Repr\n")

    def rows_lean(rows):
        return lean_list([f'⟨"{n}", {str(q == "QN").lower()}, "{k}", {str(a).lower()}, {str(b).lower()}, {str(c).lower()}⟩' for n, q, k, a, b, c in rows])

    L.append(f"def dispatchRows : List Row := {rows_lean(disp)}")
    L.append(f"def dispatchUniqueRows : List Row := {rows_lean(dispu)}")
    L.append("")
    L.append(f"def tblRatioN : Nat := {ratio_n}\ndef tblRatioD : Nat := {ratio_d}\ndef tblMinCap : Nat := {min_cap}")
    L.append(f"def gcLwmPercent : Nat := {lwm}\ndef gcHwmPercent : Nat := {hwm}")
    L.append("")
    L.append("/-- one arm of a `terminal_bin` decision list: pattern (`eq` = the `if f == g` test before the match), the terminal constant of its guard, result kind (`clone`/`const`/`not`/`bin`), and the result's arguments -/")
    L.append("structure TRule where\n  pat : String\n  c : String\n  res : String\n  x : String\n  a : String\n  b : String\nderiving DecidableEq, Repr\n")
    for k, (rules, unparsed) in trules.items():
        items = []
        for op, rs in rules:
            rl = lean_list([f'⟨"{p}", "{c}", "{r}", "{x}", "{a}", "{b}"⟩' for p, c, r, x, a, b in rs])
            items.append(f'("{op}", {rl})')
        L.append(f"/-- `terminal_bin` ({k}): operator ↦ decision list, in source order -/")
        L.append(f"def termRules_{k} : List (String × List TRule) := {lean_list(items)}")
        L.append(f"/-- operator blocks of `terminal_bin` ({k}) that use a construct the extractor does not recognise -/")
        L.append(f"def termRulesUnparsed_{k} : List String := {lean_list([chr(34) + u + chr(34) for u in unparsed])}")

    def trip(xs):
        return lean_list([f'("{a}", "{b}", "{c}")' for a, b, c in xs])

    L.append("")
    L.append("/-- (file, function, ordering) of every reference-count decrement -/")
    L.append(f"def rcDecrements : List (String × String × String) := {trip(rel)}")
    L.append("/-- … of every load of a reference count whose comparison with 1 licenses freeing the node -/")
    L.append(f"def rcFreeLoads : List (String × String × String) := {trip(lic)}")
    L.append("/-- … of every fence -/")
    L.append(f"def fences : List (String × String × String) := {trip(fen)}")
    L.append("/-- … of the `swap(true, _)` of the hand-written locks (`TryLock`, the cache's spin mutex) -/")
    L.append(f"def lockSwaps : List (String × String × String) := {trip(lk)}")
    L.append("/-- … of their `store(false, _)` -/")
    L.append(f"def unlockStores : List (String × String × String) := {trip(ul)}")
    L.append("\nend OxiddModel.Generated")
    text = "\n".join(L) + "\n"
    os.makedirs(os.path.dirname(OUT), exist_ok=True)
    old = open(OUT).read() if os.path.exists(OUT) else None
    if old != text:
        open(OUT, "w").write(text)
        print("extract_tables: SrcFacts.lean regenerated (changed)")
    else:
        print("extract_tables: SrcFacts.lean up to date")
    files = {}
    for gen in PART2:
        files.update(gen(read))
    for name in sorted(files):
        path = os.path.join(GEN_DIR, name)
        old = open(path, encoding="utf-8").read() if os.path.exists(path) else None
        if old != files[name]:
            open(path, "w", encoding="utf-8").write(files[name])
            print(f"extract_tables: {name} regenerated (changed)")
        else:
            print(f"extract_tables: {name} up to date")


PART2 = [gen_mtbdd, gen_i64, gen_bcdd_kernels, gen_zbdd_apply, gen_reduce]


if __name__ == "__main__":
    main()
