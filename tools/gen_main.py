#!/usr/bin/env python3
"""Regenerate lean/Main.lean registering every area that has a Driver.lean"""
import os
ROOT = os.path.dirname(os.path.dirname(os.path.abspath(__file__)))
L = os.path.join(ROOT, "lean")
AREAS = [("Bdd", "bdd"), ("Bcdd", "bcdd"), ("Zbdd", "zbdd"), ("HashTbl", "tbl"), ("Mtbdd", "mtbdd"), ("Tdd", "tdd"),
         ("Num", "nat"), ("Dddmp", "dddmp"), ("VarNames", "names"), ("Circuit", "circ"), ("Ffi", "capi"), ("Locks", "locks"), ("Alloc", "alloc")]
have = [(a, p) for a, p in AREAS if os.path.exists(os.path.join(L, "OxiddModel", a, "Driver.lean"))]
EXTRA_PROTOS = [("capi-before-fix", "OxiddModel.Ffi.protoBeforeFix")] if any(a == "Ffi" for a, _ in have) else []
EXTRA_IMPORTS = []
if os.path.exists(os.path.join(L, "OxiddModel", "Reorder", "DriverStore.lean")):
    EXTRA_PROTOS.append(("reorder-store", "OxiddModel.Reorder.SwapStore.proto"))
    EXTRA_IMPORTS.append("OxiddModel.Reorder.DriverStore")
if os.path.exists(os.path.join(L, "OxiddModel", "Reorder", "DriverStoreC.lean")):
    EXTRA_PROTOS.append(("reorder-store-bcdd", "OxiddModel.Reorder.SwapStoreC.proto"))
    EXTRA_IMPORTS.append("OxiddModel.Reorder.DriverStoreC")
PROTO_NAME = {"Num": "OxiddModel.Num.Driver.proto"}
# protocols delivered by extension builders (tools/integrate.py): name -> {const, import}
import json
_pe = os.path.join(ROOT, "tools", "protos_extra.json")
if os.path.exists(_pe):
    for _k, _v in json.load(open(_pe)).items():
        EXTRA_PROTOS.append((_k, _v["const"]))
        if _v["import"] not in EXTRA_IMPORTS:
            EXTRA_IMPORTS.append(_v["import"])
src = "import OxiddModel.Util.Proto\n" + "".join(f"import OxiddModel.{a}.Driver\n" for a, _ in have) + "".join(f"import {m}\n" for m in EXTRA_IMPORTS) + '''
open OxiddModel

def echoProto : Proto := { σ := Unit, init := (), step := fun s l => (s, l) }

def protos : List (String × Proto) := [
  ("echo", echoProto)''' + "".join(f',\n  ("{p}", {PROTO_NAME.get(a, "OxiddModel." + a + ".proto")})' for a, p in have) + "".join(f',\n  ("{p}", {q})' for p, q in EXTRA_PROTOS) + '''
]

def main (args : List String) : IO UInt32 := do
  match args with
  | [name] =>
    match protos.lookup name with
    | some p =>
      let stdin ← IO.getStdin
      let stdout ← IO.getStdout
      p.loop stdin stdout p.init
      return 0
    | none => IO.eprintln s!"unknown protocol {name}"; return 2
  | _ => IO.eprintln "usage: oxdriver <protocol>"; return 2
'''
open(os.path.join(L, "Main.lean"), "w").write(src)
print("registered:", [p for _, p in have])
