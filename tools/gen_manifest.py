#!/usr/bin/env python3
"""Regenerate /verif/MANIFEST.json from /verif/checks/*.json (one check per claimed property)."""
import glob
import json
import os

ROOT = os.path.dirname(os.path.dirname(os.path.abspath(__file__)))
props = [json.loads(l) for l in open(os.path.join(ROOT, "properties.jsonl"))]
ids = [p["id"] for p in props]
cfgs = {}
for f in sorted(glob.glob(os.path.join(ROOT, "checks", "C*.json"))):
    c = json.load(open(f))
    cfgs[c["property"]] = c

checks = []
for pid in ids:
    c = cfgs.get(pid)
    if not c or c.get("disabled"):
        continue
    checks.append({
        "property_id": pid,
        "quick_cmd": f"python3 check.py {pid} --tier quick",
        "thorough_cmd": f"python3 check.py {pid} --tier thorough",
        "evidence_file": f"/verif/evidence/{pid}.json",
        "replay_cmd_template": f"python3 check.py {pid} --replay {{path}}",
        "engine": "lean4-proof+correspondence",
        "level_claimed": {
            "category": c.get("level", "proof"),
            "text": c.get("level_text", "Lean 4 theorems about an executable model of the anchored code (all inputs/histories, no bound), tied to /repo's current source by a line-protocol correspondence check (real code vs compiled Lean model on the same operation lines) and by property-level oracles evaluated on the real code."),
            "design_ref": c.get("design_ref", f"DESIGN.md §5 {pid}"),
        },
        "level_note": c.get("level_note", "Trusted: Lean 4.33 kernel, axioms propext/Classical.choice/Quot.sound (audited per run), the Lean compiler for the model driver, the harness and check.py. The theorems are about the model; the tie to the code is differential (bounded by generator quality, reported in the evidence)."),
        "technique": c.get("technique", "machine-checked proof in Lean 4 + model/implementation correspondence check"),
    })

na = [{"property_id": pid, "reason": "check under construction in this session (Lean model and harness not yet registered)"} for pid in ids if pid not in {c["property_id"] for c in checks}]

manifest = {
    "version": 1,
    "setup_cmd": "bash setup.sh",
    "hooks": {
        "guard": "oxidd_verif (rustc --cfg)",
        "enable": "RUSTFLAGS='--cfg oxidd_verif' cargo build --release --offline (done by check.py for the harness). Three hooks, all compiled only under cfg(oxidd_verif): lock-event instrumentation `oxidd_core::util::verif_locks` with tokens at every lock site (C07 lock-trace streams), `oxidd_reorder::verif_bubble_sort` exposing the two swap schedulers of set_var_order (C08 swap-schedulers stream), allocator event log `oxidd_core::util::verif_alloc` in the index manager's slot allocator (C05 alloc-trace stream); copies of the diffs in /verif/hooks. All other observations use public API. With the guard off the instrumentation compiles to nothing.",
        "baseline_off_cmd": "cd /repo && cargo test --workspace --no-fail-fast --offline",
        "source_commits": ["88146f9", "cfc00a3", "eb5fab5"],
        "add_only": False,
    },
    "engines": [
        {"name": "lean4-proof+correspondence", "path": "/verif/check.py", "serves_properties": [c["property_id"] for c in checks],
         "kind_free_text": "Lean 4 model + theorems (/verif/lean), Rust correspondence harness (/verif/harness), orchestrator check.py"}
    ],
    "checks": checks,
    "not_applicable": na,
    "notes": "See DESIGN.md. known_findings.json lists genuine defects (open: reported as KNOWN-FINDING; fixed: repaired by a fix: commit in /repo).",
}
json.dump(manifest, open(os.path.join(ROOT, "MANIFEST.json"), "w"), indent=1)
print(f"MANIFEST.json: {len(checks)} checks, {len(na)} not yet claimed")
