#!/usr/bin/env python3
"""Integrate an extension builder's delivery /verif/work/<name>/ into the framework.

usage: integrate.py <name> [--dry]

* copies work/<name>/{lean,harness,tools}/… over /verif (reports files that would be overwritten
  with different content),
* merges work/<name>/register.json into checks/Cxx.json (lean_modules, theorems, streams appended
  if not present; claim/limits text appended to level_text/level_note with a marker),
* records extra driver protocols in tools/protos_extra.json (read by tools/gen_main.py) and
  regenerates lean/Main.lean,
* regenerates MANIFEST.json.
Nothing is built or committed here.
"""
import filecmp
import json
import os
import shutil
import subprocess
import sys

ROOT = os.path.dirname(os.path.dirname(os.path.abspath(__file__)))


def main():
    name = sys.argv[1]
    dry = "--dry" in sys.argv
    W = os.path.join(ROOT, "work", name)
    reg = json.load(open(os.path.join(W, "register.json")))
    # 1. files
    for sub in ("lean", "harness", "tools"):
        src = os.path.join(W, sub)
        if not os.path.isdir(src):
            continue
        for d, _, fs in os.walk(src):
            for f in fs:
                s = os.path.join(d, f)
                rel = os.path.relpath(s, W)
                t = os.path.join(ROOT, rel)
                if "/target/" in s or "/.lake/" in s:
                    continue
                if os.path.exists(t) and not filecmp.cmp(s, t, shallow=False):
                    print("OVERWRITE", rel)
                elif not os.path.exists(t):
                    print("new", rel)
                if not dry:
                    os.makedirs(os.path.dirname(t), exist_ok=True)
                    shutil.copy(s, t)
    # 2. checks
    props = reg["property"] if isinstance(reg["property"], list) else [reg["property"]]
    per = reg.get("per_property", {})
    for pid in props:
        p = os.path.join(ROOT, "checks", pid + ".json")
        c = json.load(open(p))
        r = dict(reg)
        pp = per.get(pid, {})
        r.update({'theorems': pp} if isinstance(pp, list) else ({} if isinstance(pp, str) else pp))
        for m in r.get("lean_modules", []):
            if m not in c["lean_modules"]:
                c["lean_modules"].append(m)
        for t in r.get("theorems", []):
            if t not in c["theorems"]:
                c["theorems"].append(t)
        have = {s["name"] for s in c["streams"]}
        for s in r.get("streams", []):
            if s["name"] not in have:
                c["streams"].append(s)
        mark = f" [{name}]"
        if r.get("claim_text") and mark not in c.get("level_text", ""):
            c["level_text"] = c.get("level_text", "").rstrip() + " " + r["claim_text"].strip() + mark
        if r.get("limits_text") and mark not in c.get("level_note", ""):
            c["level_note"] = c.get("level_note", "").rstrip() + " " + r["limits_text"].strip() + mark
        print(pid, "modules", len(c["lean_modules"]), "theorems", len(c["theorems"]), "streams", len(c["streams"]))
        if not dry:
            json.dump(c, open(p, "w"), indent=1, ensure_ascii=False)
    # 3. protos
    pe = os.path.join(ROOT, "tools", "protos_extra.json")
    extra = json.load(open(pe)) if os.path.exists(pe) else {}
    for k, v in reg.get("protos", {}).items():
        if isinstance(v, dict):
            extra[k] = v
        else:
            extra[k] = {"const": v, "import": reg.get("proto_imports", {}).get(k, ".".join(v.split(".")[:-1]))}
    if not dry:
        json.dump(extra, open(pe, "w"), indent=1)
        subprocess.run([sys.executable, os.path.join(ROOT, "tools", "gen_main.py")], check=True)
        subprocess.run([sys.executable, os.path.join(ROOT, "tools", "gen_manifest.py")], check=True)


if __name__ == "__main__":
    main()
