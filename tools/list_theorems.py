#!/usr/bin/env python3
"""list the fully qualified names of the theorems declared in the given Lean files"""
import re, sys
def theorems(path):
    ns = []
    out = []
    for line in open(path, encoding='utf-8'):
        m = re.match(r'^namespace\s+(\S+)', line)
        if m:
            ns.append(m.group(1)); continue
        m = re.match(r'^end\s+(\S+)', line)
        if m and ns and ns[-1].endswith(m.group(1).split('.')[-1]):
            ns.pop(); continue
        m = re.match(r'^(?:@\[[^\]]*\]\s*)?(?:private\s+|protected\s+)?theorem\s+(\S+)', line)
        if m:
            out.append('.'.join(ns + [m.group(1)]))
    return out
if __name__ == '__main__':
    for p in sys.argv[1:]:
        for t in theorems(p):
            print(t)
