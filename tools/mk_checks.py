#!/usr/bin/env python3
"""(Re)generate the check configs of the properties served by the `bf` scenario (BDD/BCDD/ZBDD)."""
import json, os, sys
sys.path.insert(0, os.path.dirname(__file__))
from list_theorems import theorems
ROOT = os.path.dirname(os.path.dirname(os.path.abspath(__file__)))
L = os.path.join(ROOT, "lean")

def mods_theorems(mods):
    """mods: module names or (module, regex) pairs; the regex selects theorem base names"""
    import re
    ms, ts = [], []
    for m in mods:
        rx = None
        if isinstance(m, tuple):
            m, rx = m
        p = os.path.join(L, m.replace(".", "/") + ".lean")
        if os.path.exists(p):
            if m not in ms:
                ms.append(m)
            for t in theorems(p):
                if rx is None or re.search(rx, t.split(".")[-1]):
                    if t not in ts:
                        ts.append(t)
    return ms, ts

def have_proto(kind):
    return os.path.exists(os.path.join(L, "OxiddModel", kind.capitalize(), "Driver.lean")) and \
        ('("%s"' % kind) in open(os.path.join(L, "Main.lean")).read()

# (kind, suite) pairs on which the kind's Lean driver has been validated byte for byte
VALIDATED = {"bdd": None,  # all suites
             "bcdd": None,
             "zbdd": None}

def bf_streams(suite, kinds):
    out = []
    for k in kinds:
        s = {"name": f"{k}-{suite}", "bin": "bf", "gen": {"quick": ["--kind", k, "--suite", suite], "thorough": ["--kind", k, "--suite", suite]},
             "run_args": ["--kind", k]}
        if have_proto(k) and (VALIDATED.get(k) is None or suite in VALIDATED[k]):
            s["proto"] = k
        out.append(s)
    return out

G = "OxiddModel.Generated.Obligations"
B = "OxiddModel.Bcdd.Properties"
Z = "OxiddModel.Zbdd.Properties"
SPEC = {
 "C01": (["OxiddModel.Bdd.Properties", (B, r"canonical|unique|sat_valid"), (Z, r"canonical|unique|sat_valid")], [("c01", ["bdd", "bcdd", "zbdd"])]),
 "C02": ([(G, r"enums_as_modelled"), "OxiddModel.Bdd.Properties", (B, r"not_sem|apply|Bin_sem|op_sem|ite|const_var|eval_sem|cofactors|var_nf"),
          (Z, r"zbdd_not|zbdd_apply|op_sem|zbdd_ite|zbdd_var|zbdd_cofactors|bool_view")], [("c02", ["bdd", "bcdd", "zbdd"])]),
 "C03": (["OxiddModel.Bdd.Properties", "OxiddModel.Bdd.PropertiesC12", (B, r"_nf$|reduce"), (Z, r"_nf|nf'")], [("c03", ["bdd", "bcdd", "zbdd"])]),
 "C04": ([(G, r"dispatch"), "OxiddModel.Bdd.PropertiesC04", (B, r"quant|restrict|applyQuant|dispatch|subst|varset|cube_sem|qsem"), (Z, r"restrict")], [("c04", ["bdd", "bcdd", "zbdd"])]),
 "C05": (["OxiddModel.Bdd.PropertiesC05"], [("c05", ["bdd", "bcdd", "zbdd"])]),
 "C06": ([(G, r"memo_"), "OxiddModel.Bdd.PropertiesC06"], [("c06", ["bdd", "bcdd", "zbdd"])]),
 "C07": (["OxiddModel.Bdd.PropertiesC07"], [("c07", ["bdd", "bcdd", "zbdd"])]),
 "C08": (["OxiddModel.Reorder.Properties"], [("c08", ["bdd", "bcdd", "zbdd"])]),
 "C09": ([(Z, r"family|union|intsec|diff|subset|change|makeNode|bool_view|add_vars|taut|setops|const_nf")], [("c09", ["zbdd"])]),
 "C12": (["OxiddModel.Bdd.PropertiesC12", (B, r"satcount"), (Z, r"satcount")], [("c12", ["bdd", "bcdd", "zbdd"])]),
 "C13": (["OxiddModel.Bdd.PropertiesC13", (B, r"pick|choice|literal"), (Z, r"pick")], [("c13", ["bdd", "bcdd", "zbdd"])]),
 "C14": (["OxiddModel.Bdd.PropertiesC14"], [("c14", ["bdd", "bcdd", "zbdd"])]),
}
for pid, (mods, suites) in SPEC.items():
    p = os.path.join(ROOT, "checks", pid + ".json")
    cfg = json.load(open(p)) if os.path.exists(p) else {"property": pid, "level": "proof"}
    ms, ts = mods_theorems(mods)
    keep_mods = [m for m in cfg.get("extra_lean_modules", [])]
    keep_thms = [t for t in cfg.get("extra_theorems", [])]
    cfg["lean_modules"] = ms + [m for m in keep_mods if m not in ms]
    cfg["theorems"] = ts + [t for t in keep_thms if t not in ts]
    streams = []
    for suite, kinds in suites:
        streams += bf_streams(suite, kinds)
    if pid == "C14":
        for st in streams:
            st["run_args"] = st["run_args"] + ["--capped", "1"]
    def kf(name, kind):
        return {"name": name, "bin": "bf", "gen": {"quick": ["--kind", kind, "--suite", name], "thorough": ["--kind", kind, "--suite", name]}, "run_args": ["--kind", kind, "--hang-secs", "20"]}
    if pid == "C08":
        streams += [kf("kf-zbdd-reorder", "zbdd"), kf("kf-reorder-oom", "bdd")]
    if pid == "C14":
        streams += [kf("kf-reorder-oom", "bdd"), kf("kf-zbdd-addvars-oom", "zbdd")]
    keep = [s for s in cfg.get("streams", []) if s.get("bin") != "bf"]
    cfg["streams"] = streams + keep
    cfg.setdefault("exhaustive", {"quick": False, "thorough": False})
    if not ts:
        cfg["disabled"] = True
    else:
        cfg.pop("disabled", None)
    json.dump(cfg, open(p, "w"), indent=1)
    print(pid, len(ms), "modules", len(ts), "theorems", [s["name"] + ("+model" if "proto" in s else "") for s in streams], "DISABLED" if not ts else "")

# obligations over the extracted tables for configs written by the area builders
EXTRA = {"C10": [(G, r"mtbdd|enums_as_modelled")], "C11": [(G, r"tdd|enums_as_modelled")], "C17": [(G, r"constants_as_modelled")]}
for pid, mods in EXTRA.items():
    p = os.path.join(ROOT, "checks", pid + ".json")
    if not os.path.exists(p):
        continue
    cfg = json.load(open(p))
    ms, ts = mods_theorems(mods)
    for m in ms:
        if m not in cfg["lean_modules"]:
            cfg["lean_modules"].append(m)
    for t in ts:
        if t not in cfg["theorems"]:
            cfg["theorems"].append(t)
    json.dump(cfg, open(p, "w"), indent=1)
    print(pid, "+", len(ts), "generated-table obligations")
