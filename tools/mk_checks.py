#!/usr/bin/env python3
"""(Re)generate the check configs of the properties served by the `bf` scenario (BDD/BCDD/ZBDD)."""
import json, os, sys
sys.path.insert(0, os.path.dirname(__file__))
from list_theorems import theorems
ROOT = os.path.dirname(os.path.dirname(os.path.abspath(__file__)))
L = os.path.join(ROOT, "lean")

def mods_theorems(mods):
    """mods: module names or (module, regex) pairs; the regex selects theorem base names"""
    import re
    ms, ts = [], []
    for m in mods:
        rx = None
        if isinstance(m, tuple):
            m, rx = m
        p = os.path.join(L, m.replace(".", "/") + ".lean")
        if os.path.exists(p):
            if m not in ms:
                ms.append(m)
            for t in theorems(p):
                if rx is None or re.search(rx, t.split(".")[-1]):
                    if t not in ts:
                        ts.append(t)
    return ms, ts

def have_proto(kind):
    return os.path.exists(os.path.join(L, "OxiddModel", kind.capitalize(), "Driver.lean")) and \
        ('("%s"' % kind) in open(os.path.join(L, "Main.lean")).read()

# (kind, suite) pairs on which the kind's Lean driver has been validated byte for byte
VALIDATED = {"bdd": None,  # all suites
             "bcdd": None,
             "zbdd": None}

def bf_streams(suite, kinds):
    out = []
    for k in kinds:
        s = {"name": f"{k}-{suite}", "bin": "bf", "gen": {"quick": ["--kind", k, "--suite", suite], "thorough": ["--kind", k, "--suite", suite]},
             "run_args": ["--kind", k]}
        if have_proto(k) and (VALIDATED.get(k) is None or suite in VALIDATED[k]):
            s["proto"] = k
        out.append(s)
    return out

GEN = "OxiddModel.Generated."
B = "OxiddModel.Bcdd.Properties"
Z = "OxiddModel.Zbdd.Properties"
SPEC = {
 "C01": ([("OxiddModel.Bdd.PropertiesHistory", r"inv_|canonical|history_semantics|swap_|reorder_|set_var_order|addVars"), "OxiddModel.Bdd.Properties", (B, r"canonical|unique|sat_valid"), (Z, r"canonical|unique|sat_valid")], [("c01", ["bdd", "bcdd", "zbdd"])]),
 "C02": ([GEN + "ObTerminalBdd", (GEN + "ObBdd", r"enums_bdd"), (GEN + "ObBcdd", r"enums_bcdd"), (GEN + "ObZbdd", r"enums_zbdd"), "OxiddModel.Bdd.Properties", (B, r"not_sem|apply|Bin_sem|op_sem|ite|const_var|eval_sem|cofactors|var_nf"),
          (Z, r"zbdd_not|zbdd_apply|op_sem|zbdd_ite|zbdd_var|zbdd_cofactors|bool_view")], [("c02", ["bdd", "bcdd", "zbdd"])]),
 "C03": ([("OxiddModel.Bdd.PropertiesHistory", r"inv_|stored_nodes|l2v_bij|nodecount|step_|gc_"), "OxiddModel.Bdd.Properties", "OxiddModel.Bdd.PropertiesC12", (B, r"_nf$|reduce"), (Z, r"_nf|nf'")], [("c03", ["bdd", "bcdd", "zbdd"])]),
 "C04": ([(GEN + "ObBcdd", r"dispatch"), "OxiddModel.Bdd.PropertiesC04", ("OxiddModel.Bdd.PropertiesC04S", r"_spec|_sem|subst_id_reuse|base_ops"), (B, r"quant|restrict|applyQuant|dispatch|subst|varset|cube_sem|qsem"), (Z, r"restrict")], [("c04", ["bdd", "bcdd", "zbdd"])]),
 "C05": (["OxiddModel.Bdd.PropertiesC05", "OxiddModel.Alloc.Properties", "OxiddModel.Alloc.PropertiesTrace"], [("c05", ["bdd", "bcdd", "zbdd"])]),
 "C06": ([(GEN + "ObBdd", r"memo_"), (GEN + "ObMtbdd", r"memo_"), (GEN + "ObTdd", r"memo_"), "OxiddModel.Bdd.PropertiesC06", ("OxiddModel.Bdd.PropertiesC04S", r"key|transparent|unsound|closed_cache|ids_depend|historyX"), "OxiddModel.Bcdd.PropertiesC06", "OxiddModel.Zbdd.PropertiesC06"], [("c06", ["bdd", "bcdd", "zbdd"])]),
 "C07": ([GEN + "ObOrderings", "OxiddModel.Bdd.PropertiesC07", ("OxiddModel.Locks.Properties", r"acquisitions_ranked|no_deadlock|no_cyclic_wait|try_never_blocks|holds_buckets|exclusive_|reentrant_|pool_takes"), ("OxiddModel.Locks.PropertiesTrace", r"trace_|ok_toProg|accepts_|follows_|stepThread_trace|evWhy|driver_|ctxTable|tableContexts")], [("c07", ["bdd", "bcdd", "zbdd"])]),
 "C08": (["OxiddModel.Reorder.Properties", ("OxiddModel.Reorder.PropertiesStore", r"swapS_|swapsS_|bubbleDownS|setVarOrderS"), ("OxiddModel.Reorder.PropertiesStoreC", r"swapC_|swapsC_|setVarOrderC")], [("c08", ["bdd", "bcdd", "zbdd"])]),
 "C09": ([(Z, r"family|union|intsec|diff|subset|change|makeNode|bool_view|add_vars|taut|setops|const_nf"), ("OxiddModel.Zbdd.PropertiesC06", r"zbdd_setop_spec|zbdd_subset_spec|zbdd_not_spec|zbdd_ite_spec|zbdd_restrict_spec|zbdd_taut|zbdd_restrict_sound_across_addvars|zbdd_terminal_refines")], [("c09", ["zbdd"])]),
 "C12": (["OxiddModel.Bdd.PropertiesC12", (B, r"satcount"), (Z, r"satcount")], [("c12", ["bdd", "bcdd", "zbdd"])]),
 "C13": (["OxiddModel.Bdd.PropertiesC13", (B, r"pick|choice|literal"), (Z, r"pick")], [("c13", ["bdd", "bcdd", "zbdd"])]),
 "C14": (["OxiddModel.Bdd.PropertiesC14"], [("c14", ["bdd", "bcdd", "zbdd"])]),
}
for pid, (mods, suites) in SPEC.items():
    p = os.path.join(ROOT, "checks", pid + ".json")
    cfg = json.load(open(p)) if os.path.exists(p) else {"property": pid, "level": "proof"}
    ms, ts = mods_theorems(mods)
    keep_mods = [m for m in cfg.get("extra_lean_modules", [])]
    keep_thms = [t for t in cfg.get("extra_theorems", [])]
    cfg["lean_modules"] = ms + [m for m in keep_mods if m not in ms]
    cfg["theorems"] = ts + [t for t in keep_thms if t not in ts]
    streams = []
    for suite, kinds in suites:
        streams += bf_streams(suite, kinds)
    if pid == "C14":
        for st in streams:
            st["run_args"] = st["run_args"] + ["--capped", "1"]
    def kf(name, kind):
        return {"name": name, "bin": "bf", "gen": {"quick": ["--kind", kind, "--suite", name], "thorough": ["--kind", kind, "--suite", name]}, "run_args": ["--kind", kind, "--hang-secs", "20"]}
    if pid in ("C05", "C07"):
        # background collector: small store, every line also on a large reference manager
        for k in ["bdd", "bcdd", "zbdd"]:
            streams.append({"name": f"{k}-bggc", "bin": "bf", "proto": k, "gen": {"quick": ["--kind", k, "--suite", "bggc"], "thorough": ["--kind", k, "--suite", "bggc"]},
                            "run_args": ["--kind", k, "--capped", "1"]})
    if pid == "C08":
        # the same operation file replayed on the store-level model of level_swap / set_var_order
        # (ids, per-level tables, reference counts; `dump` directly after `order` is predicted)
        streams.append({"name": "bdd-c08-store", "bin": "bf", "proto": "reorder-store", "gen": {"quick": ["--kind", "bdd", "--suite", "c08", "--dump-after-order", "1"], "thorough": ["--kind", "bdd", "--suite", "c08", "--dump-after-order", "1", "--tier", "quick", "--scale", "3"]}, "run_args": ["--kind", "bdd"]})
        streams.append({"name": "bcdd-c08-store", "bin": "bf", "proto": "reorder-store-bcdd", "gen": {"quick": ["--kind", "bcdd", "--suite", "c08", "--dump-after-order", "1"], "thorough": ["--kind", "bcdd", "--suite", "c08", "--dump-after-order", "1", "--tier", "quick", "--scale", "3"]}, "run_args": ["--kind", "bcdd"]})
        streams += [kf("kf-zbdd-reorder", "zbdd"), kf("kf-reorder-oom", "bdd")]
    if pid == "C14":
        streams += [kf("kf-reorder-oom", "bdd"), kf("kf-zbdd-addvars-oom", "zbdd")]
    keep = [s for s in cfg.get("streams", []) if s.get("bin") != "bf"]
    cfg["streams"] = streams + keep
    cfg.setdefault("exhaustive", {"quick": False, "thorough": False})
    if not ts:
        cfg["disabled"] = True
    else:
        cfg.pop("disabled", None)
    json.dump(cfg, open(p, "w"), indent=1)
    print(pid, len(ms), "modules", len(ts), "theorems", [s["name"] + ("+model" if "proto" in s else "") for s in streams], "DISABLED" if not ts else "")

# obligations over the extracted tables for configs written by the area builders
EXTRA = {"C10": [GEN + "ObMtbdd"], "C11": [GEN + "ObTdd", GEN + "ObTerminalTdd"], "C17": [GEN + "ObTbl"], "C05": [GEN + "ObGc", (GEN + "ObOrderings", r"rc_|free_after")], "C09": [(GEN + "ObZbdd", r"enums_zbdd")]}
for pid, mods in EXTRA.items():
    p = os.path.join(ROOT, "checks", pid + ".json")
    if not os.path.exists(p):
        continue
    cfg = json.load(open(p))
    ms, ts = mods_theorems(mods)
    for m in ms:
        if m not in cfg["lean_modules"]:
            cfg["lean_modules"].append(m)
    for t in ts:
        if t not in cfg["theorems"]:
            cfg["theorems"].append(t)
    json.dump(cfg, open(p, "w"), indent=1)
    print(pid, "+", len(ts), "generated-table obligations")


# ------------------------------------------------------------------------------------------------
# per-property claim texts (level_claimed.text, level_note, technique) for the manifest
TB = ("Trusted: Lean 4.33 kernel (axioms propext, Classical.choice, Quot.sound only; audited by #print axioms on every run), "
      "the Lean compiler for the model driver, the Rust harness/oracles and check.py, the table extractor. ")
META = {
 "C01": ("Proved (all trees, no bound): two normal-form diagrams are equal iff they denote the same function — for BDD, BCDD (node and tag), ZBDD (relative to the number of levels); results of connectives are the unique normal form of the specified function. Tied to the code by histories (operations, clone/drop, gc, add_vars, set_var_order) whose every output tree, `==` result and post-gc store is identical to the compiled model's; oracle on the real code: handle equality <=> equal truth tables for every new handle against all live ones, Hash/Ord consistent.",
         "The theorems are about the tree-level models (the diagram is its unfolding); hash consing and the unique table are covered by the store refinement for BDDs (C06 layer) and otherwise by the tie. MTBDD/TDD canonicity: Mtbdd/Tdd areas (C10, C11).",
         "Lean proof of canonicity + model/implementation correspondence on histories"),
 "C02": ("Proved for all operand tuples and all diagram depths: not, the 8 binary connectives and ite take under every assignment the value of the propositional connective (BDD, BCDD incl. all tagged shortcuts, ZBDD via set algebra with the tautology chain), results are in normal form, constants/variables/cofactors/eval-walk as specified. Tied by exhaustive 3-variable pair/triple streams under all 6 orders (thorough: all pairs) and random operands to 8 variables with 1 and 4 worker threads; oracle: truth table of the result computed by an independent node walk vs the operands' expected tables; `eval` argument lists name variables repeatedly (last value counts); random cases add variables while handles and memoised results are alive. The terminal-case decision lists of the BDD `terminal_bin` are extracted from the current source and proved identities of the model's connectives.",
         "Tree-level theorems; multi-threaded recursor and apply cache are covered by C06/C07 layers (BDD) and by the streams.",
         "Lean proof (induction over trees) + exhaustive small-scope correspondence"),
 "C03": ("Proved: every operation returns an ordered, reduced (kind-specific rule, BCDD then-edge regular) diagram; node count = number of distinct subterms and equal for equal functions; gc/closure well-formedness of the store (C05 layer). Tied by histories with a structural audit through the public API after every step (levels, reduction rule, duplicates per level, var/level maps inverse) and node_count against an independent reference construction.",
         "History-level induction over manager operations is being added (PropertiesHistory); the audit oracle is independent of the model.",
         "Lean proof of normal-form preservation + structural audit oracle on histories"),
 "C04": ("Proved for all trees: exists/forall/unique = iterated or/and/xor of cofactors (order independent), restrict = cofactor w.r.t. the literal cube, apply-and-quantify = apply then quantify (as trees), the BCDD dispatch tables are Boolean identities — also re-proved over the tables extracted from the current source —, substitution is simultaneous and leaves other variables untouched. Store level (BDD): the memoised quant / apply_quant / restrict / substitute over a hash-consed store return, for every admissible cache policy and every sound cache, an edge denoting the tree-level result (`quantS_spec`, `applyQuantS_spec`, `restrictS_spec`, `substituteS_spec`, relative to a registry id -> replacement vector). Tied by exhaustive 3-variable streams and random instances; reuse/alternation of substitution objects across gc is in the streams.",
         "Cache keying is part of the C06 layer/streams; identifiers of substitution objects created concurrently are checked for uniqueness on the real code (oracle), not proved.",
         "Lean proof + source-extracted table obligations + correspondence"),
 "C05": ("Proved for all stores/handle lists: the single top-down gc pass removes exactly the unreachable nodes (uses orderedness; bottom-up counterexample), keeps closure/duplicate-freeness, handles untouched, reference counts = handles + stored parent edges before/after clone, drop, new parent, gc; no handles => empty store. Tied: `gc` node counts and the full post-gc store with reference counts are identical to the model's; oracle on the real code at every point (garbage included): ref_count = live handles + stored parent edges + internal roots; leak monitor on stderr; a >65536-node collection followed by larger re-allocation; results dropped at once and recomputed after gc / add_vars / reordering (weak cache references); a small store driven across the high water mark many times so that the background collector runs (every line also on a large reference manager). The memory orderings of the reference-count protocol are extracted from the source and checked against what the interleaving models assume (Release decrement, Acquire before freeing).",
         "The table's own reference is not modelled; that Release/Acquire suffice is the standard Arc argument (assumed); the background gc thread is exercised, its free-list hand-over is covered by the allocator trace model where registered.",
         "Lean proof of gc exactness + reference-count oracle"),
 "C06": ("Proved (store-level BDD model with ids): for every admissible cache policy (exact, none, direct-mapped with any hash/capacity/lock-failure pattern) and every sound cache state the memoised not/apply/ite return an edge denoting the tree-level result; runs with different caches/policies return equal edges and stores; a hit needs the full key (tag + all operands); each operator is memoised under its own tag — also re-proved on the tags extracted from the current source for BDD, MTBDD, TDD; clearing establishes soundness; sweeping without clearing breaks it (witness). Tied by the same histories under cache capacities {1,2,16,65536}, different operators on the same operands, superset/subset variable sets, gc/reorder/add_vars between repetitions; quant / apply_quant / restrict / substitute keys contain the variable set, all three operands with both operators, the cube, the substitution id (`quant_key_has_vars`, `apply_quant_key_full`, `restrict_key_has_cube`, `subst_key_has_id`) and dropping a component is unsound on concrete stores (`…_without_vars_unsound`, `subst_id_reuse_unsound`); the real direct-mapped cache driven directly through the ApplyCache trait against a monitor (a hit returns only what was added under exactly that key since the last clear). The same refinement is proved for BCDD (tag normalisation, and/xor kernels, ite) and for ZBDD (set operations, subset with the variable in the key, not, ite, restrict with the number of levels in the key, add_vars keeping an uncleared cache sound).",
         "The bucket implementation is abstracted by Policy.OK; MTBDD/TDD caches are covered by streams and the extracted-tag obligations.",
         "Lean refinement proof (store + cache) + extracted-table obligations + correspondence across cache sizes"),
 "C07": ("Proved: the apply algorithms run against an adversarial environment invoked at every atomic point (other threads' node creation, cache writes/evictions, the collector) that only preserves the invariant and the denotations of held edges — for every such environment and fork order the result denotes the sequential result and held edges are stable; every atomic action of the algorithms is itself such an environment step (rely/guarantee), a complete foreign apply is one too. Tied by concurrent scripts (2-4 OS threads, 2-16 workers, split depths 0/1/auto/64, concurrent gc) whose every result equals the sequential model's, followed by audit and exact reference counts; hang watchdog; collections racing with operations whose results die at once; a small store on which the background collector runs repeatedly. Deadlock freedom: a model of the locking protocol (lock classes with a rank order, try_lock/wait/join, RwLock with writer bit) with `no_deadlock_all` / `no_cyclic_wait` for every table row, bucket/level count and schedule; the table is tied to the code by lock events recorded from real concurrent runs (hook) and replayed through the model's discipline (`trace_ok_iff`, `trace_no_deadlock`). Memory orderings of reference counts and hand-written locks are extracted and checked.",
         "PARTIAL: real scheduler, memory model (Release/Acquire sufficiency assumed), lock fairness and condvar wake-ups are outside the models; resumption-level composition of fine-grained interleavings is argued, call-level composition is proved; a lock site without a hook is invisible to the trace check.",
         "Lean rely/guarantee proof + concurrent stress correspondence"),
 "C08": ("Proved: the target order is a permutation respecting the requested relative order, unnamed levels are placed stably at a cost-minimal (top-most) indicator; the segment tree refines the list model; bubble sort emits exactly the inversions, the concurrent task state machine never overlaps swaps, is linearizable and terminates sorted; a level swap on trees preserves the function of the variables, normal form and handle equality. Tied: level maps after total/partial reorderings and all handles' trees identical to the model's for BDD/BCDD (all source x target orders on 3 variables with 256 functions alive, sparse diagrams with empty levels, random to 10 variables, 8 threads with >65536 nodes); ZBDD reordering of live nodes is a known finding. Store level (BDD): the in-place `level_swap` on an id-indexed heap with per-level tables, for every iteration order and allocator, re-establishes the invariant (ordered, reduced, no duplicate among moved/rewritten/fresh nodes, exact reference counts), every surviving id denotes the swapped tree, exactly the characterised orphans are freed; lifted to `set_var_order` with lazy level numbers (`setVarOrderS_correct`); three pre-fix variants are proved wrong. The store model replays the same operation file (`dump` right after `order` is predicted). The two swap schedulers are driven directly (hook) on all permutations of up to 5/6 levels and random sequences with 2-16 workers: no overlapping swaps, every swap an inversion, minimal count.",
         "PARTIAL: global minimality of the number of adjacent swaps is tested, not proved; the store-level swap is proved for BDD and BCDD (complement edges: the then-edge of a rewritten node stays regular, no incoming edge needs retagging, `swapC_inv`/`swapC_sem`/`setVarOrderC_correct`), not for ZBDD (whose reordering of live nodes is a known finding), MTBDD, TDD.",
         "Lean proof (order computation, sorting, swap semantics) + correspondence"),
 "C09": ("Proved for all trees: union/intsec/diff/subset0/subset1/change/make_node/singleton/base/empty denote the documented families for every position of the variable, Boolean view consistent, add_vars keeps the family (view gains the negated new variable), normal forms preserved. Tied by all 256 families x variables x 6 orders, pairs, and histories adding variables between (repeated) operations.",
         "", "Lean proof of family semantics + exhaustive small-scope correspondence"),
 "C12": ("Proved: sat_count over exact naturals = number of models (BDD, BCDD with complement, ZBDD incl. vars >= levels), 0 iff false; Natural (digit-level model): from/add/shl/shr/cmp/conversions/bin-oct-hex rendering exact w.r.t. N, NaN exactly where documented; Saturating add/shl/shr exact below the marker, marker absorbing. Tied: counts for all number types with fresh and shared caches across handles, gc, reorderings and changing variable counts; Natural against an independent schoolbook big integer on boundary sets and random 512-bit operands.",
         "PARTIAL: f64 counts and Natural->f64 are tested within tolerance/bit-exactly, not proved; the count cache validity is covered by streams/oracles.",
         "Lean proof (counting, digit arithmetic) + correspondence with independent big-integer oracle"),
 "C13": ("Proved for all normal-form diagrams: None/false exactly for the unsatisfiable function; the picked cube implies the function; vector and diagram describe the same cube; levels strictly increase (choice asked at most once per level); values are forced or follow the caller's choice / the literal set's polarity; others stay don't-care. Tied by all functions x choice vectors x 27 literal sets x orders; uniform picking: never a non-model, frequencies within 6 sigma (statistical test).",
         "PARTIAL: uniformity is a statistical test.", "Lean proof + exhaustive small-scope correspondence"),
 "C14": ("Proved (capacity-bounded store model): an error is reported only when a fresh node is needed and the store is full; on error the store is only extended, invariant and all existing edges' denotations are intact; on success the result is the uncapped result, monotone in the capacity; after freeing space the operation succeeds. Tied (fault enumeration): scripted histories under every capacity 0..C_max on a capped manager next to a reference manager: OOM or the reference result, OOM only when the store is full (single-threaded), audit + reference counts + all handles after every failure, 1 and 4 threads; exact allocation-point enumeration: the store is filled with ballast until exactly j slots are free (j = 0, 1, 2, ...), the operation (connective, ite, substitution incl. its preparation phase, quantification, apply-quantify, restrict) runs, is audited, the ballast is dropped and collected and the operation is retried and must succeed - also on managers with worker threads (parallel recursors).",
         "Known findings: set_var_order and ZBDD add_vars abort on exhaustion (no error return). Thresholds are not predicted by the model.",
         "Lean proof of error-path cleanliness + capacity sweep with oracles"),
 "C20": ("Proved: results (as trees), tree sets and node counts of a recorded history are independent of the allocator (any free slot: index vs pointer stores, free lists, chunks), of the cache policy and evictions, and per operation of the thread schedule. Tied: the same operation files executed by the harness built in {manager-index, manager-pointer} x {cache on, off} x {multi-threading on, off} (quick: default + opposite corner; thorough: all eight) give identical outputs and equal the model's; TDD histories on both backends, MTBDD histories on the index backend's configurations (MTBDDs do not exist for the pointer backend).",
         "Real memory layout (arcslab, hugealloc) is abstracted as 'any free slot'.",
         "Lean proof of configuration independence + cross-build differential runs"),
}
for pid, (text, note, tech) in META.items():
    p = os.path.join(ROOT, "checks", pid + ".json")
    if not os.path.exists(p):
        continue
    cfg = json.load(open(p))
    cfg["level_text"] = text
    cfg["level_note"] = TB + note
    cfg["technique"] = tech
    json.dump(cfg, open(p, "w"), indent=1)
GENERIC = {"C10": "Lean proof (exact integer arithmetic, pointwise lifting) + correspondence with i128 oracle",
           "C11": "Lean proof (three-valued tables, pointwise lifting, canonicity) + correspondence",
           "C15": "Lean proof (codecs, structured round trip, importer totality) + byte-exact export correspondence + mutation/truncation fuzz oracles",
           "C16": "Lean proof (bijection invariant, refinement to an abstract name map) + exhaustive call-sequence correspondence",
           "C17": "Lean proof (table invariant, refinement to a set, history theorem) + exhaustive adversarial-hash correspondence",
           "C18": "Lean proof (simplify equivalence, normal form, errors; AIGER coding) + exhaustive small-circuit correspondence + parser fuzz oracles",
           "C19": "Lean proof (ownership state machine) + C API vs Rust API mirrored call sequences"}
for pid, tech in GENERIC.items():
    p = os.path.join(ROOT, "checks", pid + ".json")
    if os.path.exists(p):
        cfg = json.load(open(p))
        cfg.setdefault("technique", tech)
        json.dump(cfg, open(p, "w"), indent=1)
