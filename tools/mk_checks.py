#!/usr/bin/env python3
"""(Re)generate the check configs of the properties served by the `bf` scenario (BDD/BCDD/ZBDD)."""
import json, os, sys
sys.path.insert(0, os.path.dirname(__file__))
from list_theorems import theorems
ROOT = os.path.dirname(os.path.dirname(os.path.abspath(__file__)))
L = os.path.join(ROOT, "lean")

def mods_theorems(mods):
    ms, ts = [], []
    for m in mods:
        p = os.path.join(L, m.replace(".", "/") + ".lean")
        if os.path.exists(p):
            ms.append(m)
            ts += theorems(p)
    return ms, ts

def have_proto(kind):
    return os.path.exists(os.path.join(L, "OxiddModel", kind.capitalize(), "Driver.lean")) and \
        ('("%s"' % kind) in open(os.path.join(L, "Main.lean")).read()

def bf_streams(suite, kinds):
    out = []
    for k in kinds:
        s = {"name": f"{k}-{suite}", "bin": "bf", "gen": {"quick": ["--kind", k, "--suite", suite], "thorough": ["--kind", k, "--suite", suite]},
             "run_args": ["--kind", k]}
        if have_proto(k):
            s["proto"] = k
        out.append(s)
    return out

SPEC = {
 "C01": (["OxiddModel.Bdd.Properties", "OxiddModel.Bcdd.PropertiesC01", "OxiddModel.Zbdd.PropertiesC01"], [("c01", ["bdd", "bcdd", "zbdd"])]),
 "C02": (["OxiddModel.Bdd.Properties", "OxiddModel.Bcdd.Properties", "OxiddModel.Zbdd.Properties"], [("c02", ["bdd", "bcdd", "zbdd"])]),
 "C03": (["OxiddModel.Bdd.Properties", "OxiddModel.Bdd.PropertiesC12"], [("c03", ["bdd", "bcdd", "zbdd"])]),
 "C04": (["OxiddModel.Bdd.PropertiesC04", "OxiddModel.Bcdd.PropertiesC04"], [("c04", ["bdd", "bcdd", "zbdd"])]),
 "C05": (["OxiddModel.Bdd.PropertiesC05"], [("c05", ["bdd", "bcdd", "zbdd"])]),
 "C06": (["OxiddModel.Bdd.PropertiesC06"], [("c06", ["bdd", "bcdd", "zbdd"])]),
 "C08": (["OxiddModel.Reorder.Properties"], [("c08", ["bdd", "bcdd", "zbdd"])]),
 "C09": (["OxiddModel.Zbdd.PropertiesC09"], [("c09", ["zbdd"])]),
 "C14": (["OxiddModel.Bdd.PropertiesC14"], [("c14", ["bdd", "bcdd", "zbdd"])]),
 "C13": (["OxiddModel.Bdd.PropertiesC13", "OxiddModel.Bcdd.PropertiesC13", "OxiddModel.Zbdd.PropertiesC13"], [("c13", ["bdd", "bcdd", "zbdd"])]),
}
for pid, (mods, suites) in SPEC.items():
    p = os.path.join(ROOT, "checks", pid + ".json")
    cfg = json.load(open(p)) if os.path.exists(p) else {"property": pid, "level": "proof"}
    ms, ts = mods_theorems(mods)
    cfg["lean_modules"] = ms
    cfg["theorems"] = ts
    streams = []
    for suite, kinds in suites:
        streams += bf_streams(suite, kinds)
    if pid == "C14":
        for st in streams:
            st["run_args"] = st["run_args"] + ["--capped", "1"]
    def kf(name, kind):
        return {"name": name, "bin": "bf", "gen": {"quick": ["--kind", kind, "--suite", name], "thorough": ["--kind", kind, "--suite", name]}, "run_args": ["--kind", kind, "--hang-secs", "20"]}
    if pid == "C08":
        streams += [kf("kf-zbdd-reorder", "zbdd"), kf("kf-reorder-oom", "bdd")]
    if pid == "C14":
        streams += [kf("kf-reorder-oom", "bdd"), kf("kf-zbdd-addvars-oom", "zbdd")]
    keep = [s for s in cfg.get("streams", []) if s.get("bin") != "bf"]
    cfg["streams"] = streams + keep
    cfg.setdefault("exhaustive", {"quick": False, "thorough": False})
    if not ts:
        cfg["disabled"] = True
    else:
        cfg.pop("disabled", None)
    json.dump(cfg, open(p, "w"), indent=1)
    print(pid, len(ms), "modules", len(ts), "theorems", [s["name"] + ("+model" if "proto" in s else "") for s in streams], "DISABLED" if not ts else "")
