#!/usr/bin/env python3
"""builds src/bin/c07_kinds_conc.rs from c05_rcstore_mtbdd.rs / c05_rcstore_tdd.rs (scenario code
copied verbatim into modules, because the scenario types of those bins are private) + a wrapper"""
import re, sys
src_dir, out = sys.argv[1], sys.argv[2]

def module(fn):
    s = open(f"{src_dir}/{fn}").read()
    s = re.sub(r'(?m)^//!', '//', s)                       # inner doc comments are not allowed here
    i = s.index('fn main() {')
    s = s[:i]
    assert s.count('fn exec(&mut self') == 1
    s = s.replace('fn exec(&mut self', 'fn exec(&self')   # shared by the concurrent threads
    assert s.count('\nfn script(') == 1 and s.count('\nstruct Sc {') == 1
    s = s.replace('\nfn script(', '\npub fn script(').replace('\nstruct Sc {', '\npub struct Sc {')
    return '\n'.join(('    ' + l) if l else l for l in s.split('\n'))

HEAD = r'''//! C07 for MTBDDs and TDDs: operations called into ONE manager by several OS threads at the same
//! moment ≡ the single-threaded run, on the real code, against the store-level counter models.
//!
//! MTBDD and TDD have no `ParallelRecursor` (their `apply` never forks); concurrency there means
//! several OS threads calling operations into the same manager (shared lock held by each).
//!
//! `c07_kinds_conc gen --kind mtbdd|tdd --tier .. --seed ..` writes histories over 4–8 variables in
//! the line syntax of the existing protocols `mtbdd-rc` / `tdd-rc` (scripts of
//! `c05_rcstore_mtbdd` / `c05_rcstore_tdd`, whose generators `script()` are reused, with roomy
//! capacities `nodes=65536` — no OutOfMemory here — and a `dump` after every 6th line).
//!
//! `c07_kinds_conc run --kind mtbdd|tdd` keeps TWO real managers, each inside the scenario of the
//! `c05_rcstore_*` bin (module `mt` / `td` below is that bin's code, copied verbatim up to
//! `exec(&self)` and two `pub`; all of its oracles — reference counts = handles + stored parents, exact `gc`,
//! terminal table, value tables — run in both):
//! * manager A executes every line single-threaded; ITS line is printed (default; `--print conc`
//!   prints manager B's) and must be identical to the Lean protocol's;
//! * manager B: every operation line (`op`, `ite`, TDD also `not`) is FIRST computed by 3 OS threads
//!   at the same moment (spin barrier; cold cache for this operation, the three race on the unique
//!   table, the terminal table and the apply cache), the results dropped, then the line is executed
//!   through the scenario (recomputation), then computed by 3 OS threads again (warm; skipped when
//!   the line overwrote one of its own operands).
//!
//! Oracles (on the implementation, independent of the model):
//! * `conc-vs-seq-diagram`  every line's canonical output (result tree, full store dump with
//!   reference counts and terminals, `gc`/`ninner`/`nterms`/`rc`/`eq` answers) of B = of A; the tree
//!   of every concurrently computed result = A's output;
//! * `conc-vs-seq-store-size` `num_inner_nodes()` of B = of A after every operation line;
//! * `concurrent-recompute-differs` the three racing results are pairwise the identical edge (`==`);
//!   the three warm results are identical to the stored handle;
//! * `concurrent-changed-store` the recomputation after the race and the warm round store no
//!   further node (the race stored exactly the nodes of the operation, nothing twice);
//! * `concurrent-oom` a concurrent computation reports OutOfMemory (capacities are roomy).
#![allow(dead_code, unused_imports, unexpected_cfgs)]
use oxv::{Ctx, GenCfg, Rng, Scenario, harness_main, words};
use std::collections::BTreeMap;
use std::io::Write;
use std::sync::atomic::{AtomicUsize, Ordering};

/// what the wrapper needs from the scenario of a `c05_rcstore_*` bin
trait Inner: Scenario + Sync + Sized + 'static {
    type Fun: Send + Sync + PartialEq;
    const KIND: &'static str;
    fn fresh() -> Self;
    /// the operation of an operation line once more (None: not an operation line / missing handle)
    fn conc_exec(&self, w: &[&str]) -> Option<Result<Self::Fun, ()>>;
    fn handle(&self, name: &str) -> Option<&Self::Fun>;
    fn tree(&self, f: &Self::Fun) -> String;
    fn ninner(&self) -> usize;
}

struct Conc<S: Inner> {
    a: S,
    b: S,
    print_conc: bool,
}

const T: usize = 3;

fn race<S: Inner>(b: &S, w: &[&str]) -> Vec<Option<Result<S::Fun, ()>>> {
    let gate = AtomicUsize::new(0);
    std::thread::scope(|s| {
        let hs: Vec<_> = (0..T)
            .map(|_| {
                let gate = &gate;
                s.spawn(move || {
                    gate.fetch_add(1, Ordering::SeqCst);
                    while gate.load(Ordering::SeqCst) < T {
                        std::hint::spin_loop();
                    }
                    b.conc_exec(w)
                })
            })
            .collect();
        hs.into_iter().map(|h| h.join().expect("thread")).collect()
    })
}

fn clip(s: &str) -> String {
    if s.len() > 400 { format!("{}… ({} bytes)", &s[..s.char_indices().map(|x| x.0).take_while(|i| *i <= 400).last().unwrap_or(0)], s.len()) } else { s.to_string() }
}

impl<S: Inner> Scenario for Conc<S> {
    fn reset(&mut self) {
        self.a.reset();
        self.b.reset();
    }

    fn step(&mut self, line: &str, ctx: &mut Ctx) -> String {
        let w = words(line);
        let out_a = self.a.step(line, ctx);
        let is_op = matches!(w[0], "op" | "ite" | "not") && !(out_a.starts_with("err") || out_a == "bad-op" || out_a == "OOM" || out_a == "abort");
        if !is_op {
            let out_b = self.b.step(line, ctx);
            if out_b != out_a {
                ctx.fail("conc-vs-seq-diagram", &format!("`{}`: the manager used concurrently prints {} but the single-threaded one {}", line, clip(&out_b), clip(&out_a)));
            }
            ctx.count("outputs_compared");
            if w[0] == "dump" {
                ctx.count("dumps_compared");
            }
            return if self.print_conc { out_b } else { out_a };
        }
        // round 1: three OS threads, cold
        let before = self.b.ninner();
        {
            let rs = race(&self.b, &w);
            let mut oks: Vec<&S::Fun> = Vec::new();
            for r in &rs {
                match r {
                    Some(Ok(f)) => {
                        ctx.count("concurrent_first_computations");
                        let t = self.b.tree(f);
                        if t != out_a {
                            ctx.fail("conc-vs-seq-diagram", &format!("`{}`: one of {} OS threads computing it at the same moment got {} but the single-threaded manager {}", line, T, clip(&t), clip(&out_a)));
                        }
                        oks.push(f);
                    }
                    Some(Err(())) => ctx.fail("concurrent-oom", &format!("`{}`: a concurrent computation reports OutOfMemory", line)),
                    None => {}
                }
            }
            for i in 1..oks.len() {
                if oks[i] != oks[0] {
                    ctx.fail("concurrent-recompute-differs", &format!("`{}`: two of {} OS threads computing it at the same moment got different edges ({} / {})", line, T, clip(&self.b.tree(oks[i])), clip(&self.b.tree(oks[0]))));
                }
            }
        } // results dropped: the nodes stay stored (garbage until the line is executed)
        let mid = self.b.ninner();
        if mid > before {
            ctx.count("ops_whose_race_created_nodes");
            ctx.add("nodes_created_in_races", (mid - before) as u64);
        }
        // the line itself (recomputation, with all oracles of the scenario)
        let out_b = self.b.step(line, ctx);
        ctx.count("outputs_compared");
        if out_b != out_a {
            ctx.fail("conc-vs-seq-diagram", &format!("`{}`: the manager used concurrently prints {} but the single-threaded one {}", line, clip(&out_b), clip(&out_a)));
        }
        let after = self.b.ninner();
        if after != mid {
            ctx.fail("concurrent-changed-store", &format!("`{}`: after {} OS threads computed it ({} -> {} stored nodes) the recomputation changed the number of stored nodes to {}", line, T, before, mid, after));
        }
        if after != self.a.ninner() {
            ctx.fail("conc-vs-seq-store-size", &format!("`{}`: the manager used concurrently stores {} inner nodes afterwards, the single-threaded one {}", line, after, self.a.ninner()));
        }
        let e = ctx.stats.entry("max_stored_nodes".into()).or_insert(0);
        *e = (*e).max(after as u64);
        // round 2: three OS threads, warm; identical to the stored handle (not when the line
        // overwrote one of its own operands: the operation is a different one now)
        if w[2..].contains(&w[1]) {
            ctx.count("ops_overwriting_an_operand_no_warm_round");
        } else {
            let rs = race(&self.b, &w);
            let res = self.b.handle(w[1]);
            for r in &rs {
                match (r, res) {
                    (Some(Ok(f)), Some(res)) => {
                        ctx.count("concurrent_recomputations");
                        if f != res {
                            ctx.fail("concurrent-recompute-differs", &format!("`{}`: one of {} OS threads recomputing it got a different edge: {} instead of {}", line, T, clip(&self.b.tree(f)), clip(&out_b)));
                        }
                    }
                    (Some(Err(())), _) => ctx.fail("concurrent-oom", &format!("`{}`: a concurrent recomputation reports OutOfMemory", line)),
                    _ => {}
                }
            }
        }
        if self.b.ninner() != after {
            ctx.fail("concurrent-changed-store", &format!("`{}`: recomputing it from {} OS threads changed the number of stored nodes from {} to {}", line, T, after, self.b.ninner()));
        }
        if self.print_conc { out_b } else { out_a }
    }
}

fn emit(w: &mut dyn Write, kind: &str, idx: u64, n: u32, lines: &[String]) {
    let cache = [1usize, 2, 16, 1024, 4096][(idx % 5) as usize];
    writeln!(w, "case c07kc-{}-{}-n{}-c{}", kind, idx, n, cache).unwrap();
    if kind == "mtbdd" {
        writeln!(w, "mgr vars={} nodes=65536 terms=65536 cache={}", n, cache).unwrap();
    } else {
        writeln!(w, "mgr vars={} nodes=65536 cache={}", n, cache).unwrap();
    }
    for (i, l) in lines.iter().enumerate() {
        writeln!(w, "{}", l).unwrap();
        if i % 6 == 5 {
            writeln!(w, "dump").unwrap();
        }
    }
    writeln!(w, "dump").unwrap();
}

fn generate(cfg: &GenCfg, rng: &mut Rng, w: &mut dyn Write) {
    let kind = cfg.extra.get("kind").cloned().unwrap_or_else(|| "mtbdd".into());
    let cases = if cfg.thorough { 250 } else { 60 } * cfg.scale;
    for c in 0..cases {
        let n = 4 + (c % 5) as u32; // 4..8 variables
        let steps = if cfg.thorough { 160 } else { 120 };
        let lines = if kind == "tdd" { td::script(rng, n, steps) } else { mt::script(rng, n, steps) };
        emit(w, &kind, c, n, &lines);
    }
}

fn make(f: &BTreeMap<String, String>) -> Box<dyn Scenario> {
    let print_conc = f.get("print").map(|p| p == "conc").unwrap_or(false);
    match f.get("kind").map(|s| s.as_str()) {
        Some("tdd") => Box::new(Conc { a: td::Sc::fresh(), b: td::Sc::fresh(), print_conc }),
        _ => Box::new(Conc { a: mt::Sc::fresh(), b: mt::Sc::fresh(), print_conc }),
    }
}

fn main() {
    harness_main(generate, make)
}
'''

MT_TAIL = r'''
    impl super::Inner for Sc {
        type Fun = MTBDDFunction<I64>;
        const KIND: &'static str = "mtbdd";
        fn fresh() -> Self {
            Sc { hs: HashMap::new(), mref: None, n: 0, ncap: 0, tcap: 0 }
        }
        fn conc_exec(&self, w: &[&str]) -> Option<Result<Self::Fun, ()>> {
            self.exec(w)
        }
        fn handle(&self, name: &str) -> Option<&Self::Fun> {
            self.hs.get(name)
        }
        fn tree(&self, f: &Self::Fun) -> String {
            f.with_manager_shared(|m, e| tree_of(m, e))
        }
        fn ninner(&self) -> usize {
            self.mref.as_ref().map(|r| r.with_manager_shared(|m| m.num_inner_nodes())).unwrap_or(0)
        }
    }
'''
TD_TAIL = MT_TAIL.replace('MTBDDFunction<I64>', 'TDDFunction').replace('"mtbdd"', '"tdd"').replace('n: 0, ncap: 0, tcap: 0', 'n: 0, cap: 0')

body = HEAD
body += '\n// ------------------------------------------------------------------------------------------------\n'
body += '// the scenario of c05_rcstore_mtbdd.rs (verbatim; `exec` takes `&self`, `script` and `Sc` are `pub`)\n#[allow(clippy::all)]\npub(crate) mod mt {\n' + module('c05_rcstore_mtbdd.rs') + MT_TAIL + '}\n'
body += '\n// ------------------------------------------------------------------------------------------------\n'
body += '// the scenario of c05_rcstore_tdd.rs (verbatim; `exec` takes `&self`, `script` and `Sc` are `pub`)\n#[allow(clippy::all)]\npub(crate) mod td {\n' + module('c05_rcstore_tdd.rs') + TD_TAIL + '}\n'
open(out, 'w').write(body)
