#!/usr/bin/env python3
"""Mutation campaign: how many small mechanical changes to /repo's anchored code do the checks notice?

usage: mutate.py run [--workers N] [--per-file K] [--seed S] [--only <substring>]   (long; background)
       mutate.py report

For every sampled mutant (one token-level change on one line of one anchored source file):
  1. apply it in a persistent scratch worktree of /repo's HEAD (/tmp/mut/w<i>/repo),
  2. `cargo build`; `cargo test --workspace --no-fail-fast --offline`: a mutant that does not compile or
     that the project's own suite kills is out of scope ("killed-by-suite"),
  3. otherwise run the quick checks of the properties mapped to that file in a persistent copy of
     /verif (/tmp/mut/w<i>/verif, paths rewritten to the scratch worktree): exit 1 = "caught",
     all exit 0 = "survived" (either an equivalent mutant or a gap: triaged by hand afterwards).
Results are appended to /verif/work/mutation/results.jsonl (one JSON object per mutant, with the diff).
Nothing is ever changed in /repo or /verif by this script.
"""
import json
import os
import random
import re
import shutil
import subprocess
import sys
import threading
import time

ROOT = os.path.dirname(os.path.dirname(os.path.abspath(__file__)))
OUT = os.path.join(ROOT, "work", "mutation")
BASE = "/tmp/mut"

TARGETS = [
    ("crates/oxidd-rules-bdd/src/simple/apply_rec.rs", ["C02", "C04", "C13", "C12"]),
    ("crates/oxidd-rules-bdd/src/simple/mod.rs", ["C02", "C01"]),
    ("crates/oxidd-rules-bdd/src/complement_edge/apply_rec.rs", ["C02", "C04", "C13", "C12"]),
    ("crates/oxidd-rules-bdd/src/complement_edge/mod.rs", ["C02", "C03"]),
    ("crates/oxidd-rules-bdd/src/recursor.rs", ["C07", "C14", "C04"]),
    ("crates/oxidd-rules-zbdd/src/apply_rec.rs", ["C09", "C02", "C13", "C12"]),
    ("crates/oxidd-rules-zbdd/src/lib.rs", ["C09", "C03"]),
    ("crates/oxidd-rules-mtbdd/src/apply_rec.rs", ["C10"]),
    ("crates/oxidd-rules-mtbdd/src/lib.rs", ["C10"]),
    ("crates/oxidd-rules-mtbdd/src/terminal/i64.rs", ["C10"]),
    ("crates/oxidd-rules-tdd/src/apply_rec.rs", ["C11"]),
    ("crates/oxidd-rules-tdd/src/lib.rs", ["C11"]),
    ("crates/oxidd-manager-index/src/manager.rs", ["C05", "C03", "C14", "C16", "C07"]),
    ("crates/oxidd-manager-index/src/terminal_manager/dynamic.rs", ["C10", "C05"]),
    ("crates/oxidd-cache/src/direct.rs", ["C06"]),
    ("crates/linear-hashtbl/src/raw.rs", ["C17"]),
    ("crates/oxidd-reorder/src/lib.rs", ["C08"]),
    ("crates/oxidd-reorder/src/set_var_order/mod.rs", ["C08"]),
    ("crates/oxidd-dump/src/dddmp/export.rs", ["C15"]),
    ("crates/oxidd-dump/src/dddmp/import.rs", ["C15"]),
    ("crates/oxidd-core/src/util/num/bigint.rs", ["C12"]),
    ("crates/oxidd-core/src/util/num/mod.rs", ["C12"]),
    ("crates/oxidd-core/src/util/var_name_map.rs", ["C16"]),
    ("crates/oxidd-core/src/util/mod.rs", ["C12", "C13"]),
    ("crates/oxidd-parser/src/util.rs", ["C18"]),
    ("crates/oxidd-parser/src/aiger.rs", ["C18"]),
    ("crates/oxidd-parser/src/lib.rs", ["C18"]),
    ("crates/oxidd-ffi-c/src/util/mod.rs", ["C19"]),
    ("crates/oxidd-ffi-c/src/zbdd.rs", ["C19"]),
    ("crates/oxidd-manager-pointer/src/manager.rs", ["C20"]),
    # added in the third session (new model areas)
    ("crates/oxidd-parser/src/dimacs.rs", ["C18"]),
    ("crates/oxidd-parser/src/nnf.rs", ["C18"]),
    ("crates/oxidd-rules-mtbdd/src/terminal/f64.rs", ["C10"]),
    ("crates/oxidd-manager-pointer/src/util/var_level_map.rs", ["C20"]),
    ("crates/oxidd-manager-index/src/node/fixed_arity.rs", ["C05", "C07"]),
]

OPS = [
    (r"(?<![<>=!-])<=(?!=)", "<"), (r"(?<![<>=!-])>=(?!=)", ">"),
    (r"(?<=\s)<(?=\s)", "<="), (r"(?<=\s)>(?=\s)", ">="),
    (r"==", "!="), (r"!=", "=="),
    (r"&&", "||"), (r"\|\|", "&&"),
    (r"(?<=\s)\+ 1\b", "+ 0"), (r"(?<=\s)- 1\b", "- 0"), (r"(?<=\s)\+ 1\b", "+ 2"),
    (r"(?<=\s)\+(?=\s)", "-"), (r"(?<=[\w\)\]]\s)-(?=\s)", "+"),
    (r"\btrue\b", "false"), (r"\bfalse\b", "true"),
    (r"\bmin\(", "max("), (r"\bmax\(", "min("),
    (r"\.borrowed\(\)", ".borrowed() /*m*/"),  # placeholder never used (kept for table alignment)
]
SKIP = re.compile(r"vl::|verif_locks|oxidd_verif|^\s*(//|#\[|\*|/\*)|debug_assert|assert!|assert_eq!|assert_ne!|stat!|unreachable|panic!|eprintln|println|fmt::|write!|\bconst\b.*=|^\s*(pub )?(use|mod|type|trait|impl|struct|enum|fn)\b")


def candidates(path):
    lines = open(path, encoding="utf-8").read().split("\n")
    out = []
    in_test = False
    for i, l in enumerate(lines):
        if re.match(r"\s*(#\[cfg\(test\)\]|mod tests?\b)", l):
            in_test = True
        if in_test or SKIP.search(l):
            continue
        code = l.split("//")[0]
        for k, (pat, rep) in enumerate(OPS[:-1]):
            for m in re.finditer(pat, code):
                out.append((i, m.start(), m.end(), rep, k))
        # statement deletion: a call statement on its own line
        if re.match(r"^\s*[a-z_][\w\.]*(\.[a-z_]\w*)*\([^;]*\);\s*$", code) and not re.match(r"^\s*(return|let|drop)\b", code):
            out.append((i, -1, -1, "<delete>", 99))
    return lines, out


def sh(cmd, cwd=None, env=None, timeout=3600):
    import signal
    t = time.time()
    p = subprocess.Popen(cmd, cwd=cwd, env=env, stdout=subprocess.PIPE, stderr=subprocess.STDOUT, start_new_session=True)
    try:
        out, _ = p.communicate(timeout=timeout)
        return p.returncode, out.decode(errors="replace"), round(time.time() - t, 1)
    except subprocess.TimeoutExpired:
        try:
            os.killpg(p.pid, signal.SIGKILL)
        except ProcessLookupError:
            pass
        p.communicate()
        return -9, "timeout", round(time.time() - t, 1)


def setup_worker(i):
    w = os.path.join(BASE, f"w{i}")
    repo, verif = os.path.join(w, "repo"), os.path.join(w, "verif")
    if not os.path.exists(repo):
        os.makedirs(w, exist_ok=True)
        subprocess.run(["git", "-C", "/repo", "worktree", "add", "--detach", repo, "HEAD", "-q"], check=True)
    subprocess.run(["git", "-C", repo, "checkout", "-q", "--detach", subprocess.check_output(["git", "-C", "/repo", "rev-parse", "HEAD"]).decode().strip()])
    subprocess.run(["git", "-C", repo, "checkout", "--", "."])
    subprocess.run(["rsync", "-a", "--delete", "--exclude", "/work", "--exclude", "/replays", "--exclude", "/harness/target*", "--exclude", "/.git", "--exclude", "/evidence", ROOT + "/", verif + "/"])
    os.makedirs(os.path.join(verif, "evidence"), exist_ok=True)
    ct = os.path.join(verif, "harness", "Cargo.toml")
    txt = open(ct).read().replace('"/repo/', '"' + repo + '/')
    open(ct, "w").write(txt)
    for f in os.listdir(os.path.join(verif, "checks")):
        p = os.path.join(verif, "checks", f)
        txt = open(p).read().replace("/verif/", verif + "/").replace("cd /repo", "cd " + repo)
        open(p, "w").write(txt)
    return repo, verif


LOCK = threading.Lock()


def record(obj):
    with LOCK:
        with open(os.path.join(OUT, "results.jsonl"), "a") as f:
            f.write(json.dumps(obj) + "\n")


def worker(i, queue):
    repo, verif = setup_worker(i)
    env = dict(os.environ, CARGO_NET_OFFLINE="true", OXIDD_REPO=repo, VERIF_TIER="quick", VERIF_SEED="1")
    while True:
        with LOCK:
            if not queue:
                return
            mid, rel, props, line_no, a, b, rep, opk = queue.pop(0)
        subprocess.run(["git", "-C", repo, "checkout", "--", "."])
        path = os.path.join(repo, rel)
        lines = open(path, encoding="utf-8").read().split("\n")
        old = lines[line_no]
        if rep == "<delete>":
            lines[line_no] = re.sub(r"\S.*$", "/* deleted */", old)
        else:
            lines[line_no] = old[:a] + rep + old[b:]
        open(path, "w", encoding="utf-8").write("\n".join(lines))
        res = {"id": mid, "file": rel, "line": line_no + 1, "old": old.strip(), "new": lines[line_no].strip(), "props": props}
        rc, out, t = sh(["cargo", "test", "--workspace", "--no-fail-fast", "--offline"], cwd=repo, env=env, timeout=420)
        res["suite"] = {"rc": rc, "wall_s": t}
        if rc != 0:
            res["status"] = "does-not-compile" if "could not compile" in out else ("killed-by-suite-timeout" if rc == -9 else "killed-by-suite")
            record(res)
            print(mid, res["status"], rel, line_no + 1, flush=True)
            continue
        res["checks"] = {}
        caught = False
        for p in props:
            rc, out, t = sh([sys.executable, "check.py", p, "--tier", "quick"], cwd=verif, env=env, timeout=2400)
            last = out.strip().split("\n")[-1][:300] if out.strip() else ""
            viol = [l for l in out.split("\n") if l.startswith("VIOLATION")]
            msg = ""
            if viol:
                try:
                    j = json.load(open(viol[0].split("replay=")[1].split()[0]))
                    msg = (j.get("failure", {}).get("msg") or json.dumps(j.get("no_longer_checks", ""))[:300])[:300]
                except Exception:
                    pass
            res["checks"][p] = {"rc": rc, "violations": len(viol), "nfif": any("no-failing-input-found" in v for v in viol), "summary": last, "first": msg, "wall_s": t}
            if rc != 0 and not viol:
                res["status"] = "check-error"
                break
            if rc != 0:
                caught = True
                break
        if res.get("status") != "check-error":
            res["status"] = "caught" if caught else "survived"
        record(res)
        print(mid, res["status"], rel, line_no + 1, "|", res["old"][:60], "=>", res["new"][:60], flush=True)


def main():
    os.makedirs(OUT, exist_ok=True)
    if sys.argv[1] == "report":
        rs = [json.loads(l) for l in open(os.path.join(OUT, "results.jsonl"))]
        by = {}
        for r in rs:
            by.setdefault(r["status"], []).append(r)
        for k, v in by.items():
            print(k, len(v))
        for r in by.get("survived", []):
            print("SURVIVED", r["id"], r["file"], r["line"], "|", r["old"], "=>", r["new"])
        return
    args = sys.argv[2:]
    def opt(name, d):
        return type(d)(args[args.index(name) + 1]) if name in args else d
    workers, per_file, seed, only = opt("--workers", 3), opt("--per-file", 8), opt("--seed", 1), opt("--only", "")
    rng = random.Random(seed)
    done = set()
    rp = os.path.join(OUT, "results.jsonl")
    if os.path.exists(rp):
        done = {json.loads(l)["id"] for l in open(rp)}
    queue = []
    for rel, props in TARGETS:
        if only and only not in rel:
            continue
        path = os.path.join("/repo", rel)
        if not os.path.exists(path):
            print("missing", rel)
            continue
        _, cands = candidates(path)
        rng.shuffle(cands)
        for (ln, a, b, rep, k) in cands[:per_file]:
            mid = f"{os.path.basename(os.path.dirname(rel))}-{os.path.basename(rel)[:-3]}-{ln + 1}-{k}-{a}"
            if mid not in done:
                queue.append((mid, rel, props, ln, a, b, rep, k))
    rng.shuffle(queue)
    print(len(queue), "mutants queued", flush=True)
    ts = [threading.Thread(target=worker, args=(i, queue)) for i in range(workers)]
    for t in ts:
        t.start()
    for t in ts:
        t.join()
    for i in range(workers):
        subprocess.run(["git", "-C", "/repo", "worktree", "remove", "--force", os.path.join(BASE, f"w{i}", "repo")])
    shutil.rmtree(BASE, ignore_errors=True)


if __name__ == "__main__":
    main()
