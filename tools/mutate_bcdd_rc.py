#!/usr/bin/env python3
"""apply one of the mutations M1..M3 to a scratch copy of /repo/crates and run the bcdd-rc stream"""
import os, shutil, subprocess, sys, json
M = sys.argv[1]
root = '/tmp/ext-c05-bcdd-rc/mut'
rep = f'{root}/repo'
if os.path.exists(rep): shutil.rmtree(rep)
os.makedirs(rep)
shutil.copytree('/repo/crates', f'{rep}/crates')
for f in ['Cargo.toml', 'Cargo.lock']:
    shutil.copy(f'/repo/{f}', f'{rep}/{f}')
# workspace members other than crates may be referenced: keep only crates/*
# fresh modification times: cargo must not reuse artefacts of an earlier mutant
import time
for d, _, fs in os.walk(f'{rep}/crates'):
    for f in fs:
        os.utime(os.path.join(d, f), None)
ar = f'{rep}/crates/oxidd-rules-bdd/src/complement_edge/apply_rec.rs'
md = f'{rep}/crates/oxidd-rules-bdd/src/complement_edge/mod.rs'
def sub(path, old, new, count=1):
    s = open(path).read()
    assert s.count(old) >= 1, (path, old)
    s = s.replace(old, new, count)
    open(path, 'w').write(s)
if M == 'M1':
    # a temporary that is not dropped on an ite shortcut path (fu == gu, same tag: f | h)
    sub(ar, '''        return if f.tag() == g.tag() {
            Ok(not_owned(apply_and(manager, rec, not(&f), not(&h))?)) // f ∨ h''',
        '''        return if f.tag() == g.tag() {
            let tmp = apply_and(manager, rec, not(&f), not(&h))?;
            let res = manager.clone_edge(&tmp);
            std::mem::forget(tmp); // MUTATION: the temporary is not dropped
            Ok(not_owned(res)) // f ∨ h''')
elif M == 'M2':
    # reduce does not normalise the tag
    sub(md, '''    let (node, tag) = if tt == EdgeTag::Complemented {
        let et = e.tag();''', '''    let (node, tag) = if false && tt == EdgeTag::Complemented { // MUTATION
        let et = e.tag();''')
elif M == 'M3':
    # xor kernel: the then-result leaks when the else-branch fails with OutOfMemory
    sub(ar, '''    let (t, e) = rec.binary(apply_bin::<M, R, OP>, manager, (ft, gt), (fe, ge))?;

    let h = reduce(manager, level, t.into_edge(), e.into_edge(), op)?;''',
        '''    let (t, e) = if OP == BCDDOp::Xor as u8 {
        let t = apply_bin::<M, R, OP>(manager, rec, ft, gt)?;
        let e = match apply_bin::<M, R, OP>(manager, rec, fe, ge) {
            Ok(e) => e,
            Err(err) => {
                std::mem::forget(t); // MUTATION: leak on OutOfMemory
                return Err(err);
            }
        };
        (EdgeDropGuard::new(manager, t), EdgeDropGuard::new(manager, e))
    } else {
        rec.binary(apply_bin::<M, R, OP>, manager, (ft, gt), (fe, ge))?
    };

    let h = reduce(manager, level, t.into_edge(), e.into_edge(), op)?;''')
elif M == 'M4':
    # allocator: the last never-used slot is not handed out (OutOfMemory one slot early)
    sub(f'{rep}/crates/oxidd-manager-index/src/manager.rs', '} else if (index as usize) < slots.len() {', '} else if (index as usize) + 1 < slots.len() { // MUTATION')
elif M == 'M0':
    pass
else:
    sys.exit('unknown mutation')
h = f'{root}/harness'
if os.path.exists(h): shutil.rmtree(h)
shutil.copytree('/tmp/ext-c05-bcdd-rc/harness', h, ignore=shutil.ignore_patterns('target'))
s = open(f'{h}/Cargo.toml').read().replace('/repo/crates', f'{rep}/crates')
open(f'{h}/Cargo.toml', 'w').write(s)
env = dict(os.environ, CARGO_NET_OFFLINE='true', RUSTFLAGS='--cfg oxidd_verif', CARGO_TARGET_DIR=f'{root}/target')
r = subprocess.run(['cargo', 'build', '--release', '--offline', '--bin', 'c05_rcstore_bcdd'], cwd=h, env=env, capture_output=True, text=True)
if r.returncode != 0:
    print(r.stderr[-3000:]); sys.exit(1)
out = f'{root}/{M}'
os.makedirs(out, exist_ok=True)
ops = '/tmp/ext-c05-bcdd-rc/run/ops.txt'
with open(ops) as fin, open(f'{out}/rust.out', 'w') as fo, open(f'{out}/rust.err', 'w') as fe:
    rr = subprocess.run([f'{root}/target/release/c05_rcstore_bcdd', 'run', '--oracle-out', f'{out}/fail.jsonl', '--stats', f'{out}/stats.json'], stdin=fin, stdout=fo, stderr=fe)
print(M, 'exit', rr.returncode)
a = open(f'{out}/rust.out').read().split('\n'); b = open('/tmp/ext-c05-bcdd-rc/run/lean.out').read().split('\n')
opl = open(ops).read().split('\n')
diff = [i for i in range(min(len(a), len(b))) if a[i] != b[i]]
print(M, 'stream lines differing from the model:', len(diff), 'of', len(b))
if diff:
    i = diff[0]
    print(' first difference at line', i+1, 'op:', opl[i]); print('   rust :', a[i][:300]); print('   model:', b[i][:300])
fails = [json.loads(l) for l in open(f'{out}/fail.jsonl') if l.strip()]
sigs = {}
for f in fails: sigs[f['sig']] = sigs.get(f['sig'], 0) + 1
print(M, 'oracle failures:', len(fails), sigs)
if fails: print(' first:', json.dumps(fails[0])[:600])
leak = open(f'{out}/rust.err').read().count('must not be dropped')
print(M, 'leak messages on stderr:', leak)
