import sys, shutil
name = sys.argv[1]
src = '/repo/crates/oxidd-rules-bdd/src/simple/apply_rec.rs'
dst = '/tmp/ext-c05-rc-quant/mut/repo/crates/oxidd-rules-bdd/src/simple/apply_rec.rs'
s = open(src).read()
def rep(old, new):
    global s
    assert s.count(old) == 1, (name, s.count(old))
    s = s.replace(old, new)
if name == 'none':
    pass
elif name == 'M1-applyquant-collapsed-leak':
    rep('''        Operation::Not(h) => {
            let inverse = EdgeDropGuard::new(manager, apply_not(manager, rec, h)?);
            return quant::<M, R, Q>(manager, rec, inverse.borrowed(), vars);
        }
        Operation::Done(h) => {
            let h = EdgeDropGuard::new(manager, h);
            return quant::<M, R, Q>(manager, rec, h.borrowed(), vars);
        }''', '''        unary => {
            let h = match unary {
                Operation::Not(h) => apply_not(manager, rec, h)?,
                Operation::Done(h) => h,
                Operation::Binary(..) => unreachable!(),
            };
            let res = match quant::<M, R, Q>(manager, rec, h.borrowed(), vars) {
                Ok(r) => r,
                Err(x) => {
                    std::mem::forget(h);
                    return Err(x);
                }
            };
            manager.drop_edge(h);
            return Ok(res);
        }''')
elif name == 'M2-restrict-first-result-leak':
    rep('''            let (t, e) = rec.binary(
                restrict,
                manager,
                (ft, vars.borrowed()),
                (fe, vars.borrowed()),
            )?;
''', '''            let t = restrict(manager, rec, ft, vars.borrowed())?;
            let e = match restrict(manager, rec, fe, vars.borrowed()) {
                Ok(e) => e,
                Err(x) => {
                    std::mem::forget(t);
                    return Err(x);
                }
            };
            let (t, e) = (EdgeDropGuard::new(manager, t), EdgeDropGuard::new(manager, e));
''')
elif name == 'M3-substprepare-vector-leak':
    rep('''            manager
                .level(level as LevelNo)
                .get_or_insert(InnerNode::new(
                    level as LevelNo,
                    [t.into_edge(), e.into_edge()],
                ))?
        });''', '''            match manager
                .level(level as LevelNo)
                .get_or_insert(InnerNode::new(
                    level as LevelNo,
                    [t.into_edge(), e.into_edge()],
                )) {
                Ok(e) => e,
                Err(x) => {
                    std::mem::forget(std::mem::take(&mut *res));
                    return Err(x);
                }
            }
        });''')
elif name == 'M4-quant-subresults-leak':
    # quant: in the branch flevel == vlevel the two recursive results are forgotten when the
    # inner apply_bin::<Q> fails
    rep('''    let res = if flevel == vlevel {
        apply_bin::<M, _, Q>(manager, rec, t.borrowed(), e.borrowed())
    } else {''', '''    let res = if flevel == vlevel {
        match apply_bin::<M, _, Q>(manager, rec, t.borrowed(), e.borrowed()) {
            Ok(r) => Ok(r),
            Err(x) => {
                std::mem::forget(t);
                std::mem::forget(e);
                return Err(x);
            }
        }
    } else {''')
elif name == 'M5-pick-sub-leak':
    rep('''            let sub = EdgeDropGuard::new(manager, inner(manager, if c { t } else { e }, choice)?);
            debug_assert!(!manager.get_node(&sub).is_terminal(&BDDTerminal::False));
            let f = manager.get_terminal(BDDTerminal::False)?;
            let sub = sub.into_edge();
            let children = if c { [sub, f] } else { [f, sub] };
''', '''            let sub = EdgeDropGuard::new(manager, inner(manager, if c { t } else { e }, choice)?);
            debug_assert!(!manager.get_node(&sub).is_terminal(&BDDTerminal::False));
            let f = manager.get_terminal(BDDTerminal::False)?;
            let keep = manager.clone_edge(&sub);
            let sub = sub.into_edge();
            let children = if c { [sub, f] } else { [f, sub] };
            if manager.num_inner_nodes() % 2 == 0 {
                manager.drop_edge(keep);
            } else {
                std::mem::forget(keep);
            }
''')
else:
    raise SystemExit('unknown mutation')
open(dst, 'w').write(s)
print('applied', name)
