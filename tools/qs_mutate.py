import sys, shutil, os
base='/tmp/ext-c03-store-queries/mrepo/crates/'
src='/repo/crates/'
M={
 'M1-bdd-notvar-l2v': ('oxidd-rules-bdd/src/simple/apply_rec.rs',
   '        let level = manager.var_to_level(var);\n        let ft = manager.get_terminal(BDDTerminal::False).unwrap();',
   '        let level = manager.level_to_var(var);\n        let ft = manager.get_terminal(BDDTerminal::False).unwrap();'),
 'M2-tdd-eval-nomap': ('oxidd-rules-tdd/src/apply_rec.rs',
   '            let level = manager.var_to_level(var);\n            let block = &mut choices',
   '            let level = var;\n            let block = &mut choices'),
 'M3-zbdd-eval-noones': ('oxidd-rules-zbdd/src/apply_rec.rs',
   'Node::Terminal(t) => ones == 0 && *t.borrow() == ZBDDTerminal::Base,',
   'Node::Terminal(t) => *t.borrow() == ZBDDTerminal::Base,'),
 'M4-bcdd-eval-l2v': ('oxidd-rules-bdd/src/complement_edge/apply_rec.rs',
   'choices.set(manager.var_to_level(var) as usize, !val);',
   'choices.set(manager.level_to_var(var as u32) as usize, !val);'),
 'M5-tdd-eval-block15': ('oxidd-rules-tdd/src/apply_rec.rs',
   '                    let block = choices[(level / ELEMENTS_PER_BLOCK) as usize];\n                    let shift = 2 * (level % ELEMENTS_PER_BLOCK);',
   '                    let block = choices[(level / ELEMENTS_PER_BLOCK) as usize];\n                    let shift = 2 * (level % (ELEMENTS_PER_BLOCK - 1));'),
}
name=sys.argv[1]
# restore all files first
for k,(p,_,_) in M.items():
    shutil.copy(src+p, base+p)
if name!='none':
    p,old,new=M[name]
    s=open(base+p).read()
    assert s.count(old)>=1, name
    s=s.replace(old,new,1)
    open(base+p,'w').write(s)
print('applied',name)
