#!/bin/bash
# run every registered check (quick tier by default) and print one line per check
cd "$(dirname "$0")/.."
tier=${1:-quick}
for p in $(python3 -c "import json;print(' '.join(c['property_id'] for c in json.load(open('MANIFEST.json'))['checks']))"); do
  out=$(python3 check.py $p --tier $tier 2>&1 | tail -1)
  echo "$out" | cut -c1-220
done
