#!/bin/bash
# usage: run_mut.sh <mutation>   (ops.txt and lean.out of the unchanged run are in /tmp/ext-c05-rc-quant)
set -e
cd /tmp/ext-c05-rc-quant/mut
python3 mutate.py "$1"
cd harness
CARGO_NET_OFFLINE=true RUSTFLAGS="--cfg oxidd_verif" CARGO_TARGET_DIR=/tmp/ext-c05-rc-quant/target-mut cargo build --release --offline --bin c05_rcstore_q 2>&1 | grep -E "^error|Finished" -A8 | head -20
cd /tmp/ext-c05-rc-quant
target-mut/release/c05_rcstore_q run --oracle-out mut/orc-$1.txt < ops.txt > mut/rust-$1.out 2> mut/rust-$1.err || true
if cmp -s mut/rust-$1.out lean.out; then echo "$1: stream SAME"; else echo "$1: stream DIFFERS at line $(cmp mut/rust-$1.out lean.out | awk '{print $NF}'), differing lines: $(diff mut/rust-$1.out lean.out | grep -c '^<')"; fi
echo "$1: oracle failures: $(wc -l < mut/orc-$1.txt)"; python3 - "$1" <<'PY'
import json,sys,collections
c=collections.Counter()
for l in open('/tmp/ext-c05-rc-quant/mut/orc-%s.txt'%sys.argv[1]):
    try: c[json.loads(l)['sig']]+=1
    except Exception: pass
print(dict(c))
PY
