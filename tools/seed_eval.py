#!/usr/bin/env python3
"""Run checks against a seeded change without touching /repo or /verif.

usage: seed_eval.py <name> <patch.diff> <Cxx> [<Cyy> ...] [--tier quick|thorough] [--keep]

Creates /tmp/seedrun/<name>/repo (a detached git worktree of /repo's HEAD with the patch applied)
and /tmp/seedrun/<name>/verif (a copy of /verif's committed-or-not working files incl. the Lean build
cache, with the harness's path dependencies rewritten to the scratch repo), runs
`python3 check.py <Cxx>` there for each property and prints one verdict line per property:
  <Cxx> rc=<exit code> VIOLATION-lines=<n> summary=<last line of the check>
Everything is removed afterwards (unless --keep). This is equivalent to
`git -C /repo apply <patch>; python3 check.py <Cxx>; git -C /repo checkout -- .` but can run while
other work reads /repo, and several evaluations can run in parallel.
"""
import json
import os
import shutil
import subprocess
import sys


def sh(cmd, **kw):
    return subprocess.run(cmd, **kw)


def main():
    args = sys.argv[1:]
    tier = "quick"
    keep = False
    if "--tier" in args:
        i = args.index("--tier")
        tier = args[i + 1]
        del args[i:i + 2]
    if "--keep" in args:
        keep = True
        args.remove("--keep")
    name, patch, props = args[0], os.path.abspath(args[1]), args[2:]
    base = os.path.join("/tmp/seedrun", name)
    if os.path.exists(base):
        sh(["git", "-C", "/repo", "worktree", "remove", "--force", os.path.join(base, "repo")], stderr=subprocess.DEVNULL)
        shutil.rmtree(base, ignore_errors=True)
    os.makedirs(base)
    repo = os.path.join(base, "repo")
    verif = os.path.join(base, "verif")
    r = sh(["git", "-C", "/repo", "worktree", "add", "--detach", repo, "HEAD", "-q"])
    if r.returncode != 0:
        print("cannot create worktree")
        return 2
    try:
        r = sh(["git", "-C", repo, "apply", "--whitespace=nowarn", patch], stderr=subprocess.PIPE)
        if r.returncode != 0:
            # the patch may have been made against an older commit: try 3-way
            r = sh(["git", "-C", repo, "apply", "--3way", "--whitespace=nowarn", patch], stderr=subprocess.PIPE)
        if r.returncode != 0:
            print("PATCH DOES NOT APPLY:", r.stderr.decode()[-500:])
            return 2
        sh(["rsync", "-a", "--exclude", "/work", "--exclude", "/replays", "--exclude", "/harness/target*", "--exclude", "/.git", "/verif/", verif + "/"])
        ct = os.path.join(verif, "harness", "Cargo.toml")
        s = open(ct).read().replace('"/repo/', '"' + repo + '/')
        open(ct, "w").write(s)
        lock = os.path.join(verif, "harness", "Cargo.lock")
        if os.path.exists(lock):
            pass
        env = dict(os.environ, OXIDD_REPO=repo, CARGO_NET_OFFLINE="true", VERIF_TIER=tier)
        out = {}
        for p in props:
            # C20-style absolute target dirs and the FFI build refer to /verif and /repo: rewrite per config
            cfgp = os.path.join(verif, "checks", p + ".json")
            cfg = open(cfgp).read().replace("/verif/", verif + "/").replace("cd /repo", "cd " + repo)
            open(cfgp, "w").write(cfg)
            r = sh([sys.executable, "check.py", p, "--tier", tier], cwd=verif, env=env, stdout=subprocess.PIPE, stderr=subprocess.STDOUT)
            lines = r.stdout.decode(errors="replace").strip().split("\n")
            viol = [l for l in lines if l.startswith("VIOLATION")]
            out[p] = {"rc": r.returncode, "violations": viol, "summary": lines[-1] if lines else ""}
            print(f"{p} rc={r.returncode} VIOLATION-lines={len(viol)} summary={lines[-1] if lines else ''}", flush=True)
            for v in viol[:2]:
                # show the replay's failure message
                try:
                    rp = v.split("replay=")[1].split()[0]
                    j = json.load(open(rp))
                    msg = j.get("failure", {}).get("msg") or json.dumps(j.get("no_longer_checks", ""))[:300]
                    print("   ", v[:160])
                    print("      ->", (msg or "")[:300])
                except Exception:
                    print("   ", v[:200])
        json.dump(out, open(os.path.join("/tmp/seedrun", name + ".result.json"), "w"), indent=1)
    finally:
        if not keep:
            sh(["git", "-C", "/repo", "worktree", "remove", "--force", repo], stderr=subprocess.DEVNULL)
            shutil.rmtree(base, ignore_errors=True)
    return 0


if __name__ == "__main__":
    sys.exit(main())
