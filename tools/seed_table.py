#!/usr/bin/env python3
"""(Re)write section 11 of DESIGN.md from seeded/*/meta.json"""
import glob, json, os, re
ROOT = os.path.dirname(os.path.dirname(os.path.abspath(__file__)))
rows = []
for m in sorted(glob.glob(os.path.join(ROOT, "seeded", "*", "meta.json"))):
    j = json.load(open(m))
    caught = j.get("caught_by_checks", [])
    late = j.get("caught_only_after_strengthening", [])
    missed = sorted(p for p, rs in j.get("checks_evaluated", {}).items() if rs[-1]["exit"] == 0)
    how = []
    for p in caught:
        rs = j["checks_evaluated"][p][-1]
        kind = "proof obligation/correspondence (no-failing-input-found)" if rs.get("no_failing_input_found") else "oracle failure with replay"
        how.append(f"{p}{'*' if p in late else ''} ({kind})")
    rows.append((j["id"], j["breaks_property"], j["needs_to_manifest"], "; ".join(how) if how else "— (not yet caught)", ", ".join(missed), "yes" if (j.get("confirmed_by_integrator") or {}).get("confirmed") else "no"))
out = ["## 11. Seeded changes and which checks catch them", "",
       "Every change below was produced by an independent sub-agent that saw only the property text and a scratch worktree of `/repo`; each compiles, passes the repository's existing suite, and its demonstration fails with the change and passes without it (re-confirmed by `tools/confirm_seed.py`; details in `seeded/<id>/meta.json`). The checks were run against the change in an isolated copy (`tools/seed_eval.py`). `*` = caught only after the check was strengthened (what was added is described in section 0.7).", "",
       "| seeded change | property | needs | caught by | evaluated but silent | confirmed |", "|---|---|---|---|---|---|"]
for r in rows:
    out.append("| `" + r[0] + "` | " + r[1] + " | " + r[2].replace("|", "\\|") + " | " + r[3] + " | " + (r[4] or "") + " | " + r[5] + " |")
text = "\n".join(out) + "\n"
p = os.path.join(ROOT, "DESIGN.md")
s = open(p).read()
if "## 11. Seeded changes" in s:
    s = s[:s.index("## 11. Seeded changes")] + text
else:
    s = s.rstrip("\n") + "\n\n" + text
open(p, "w").write(s)
print(len(rows), "rows")
