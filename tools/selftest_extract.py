#!/usr/bin/env python3
"""Self-test of tools/extract_tables.py: apply one mutation at a time to a scratch COPY of the Rust
sources, regenerate the tables from the copy, rebuild the obligation module in a scratch lake project
and report whether it (a) still builds, (b) fails.  `expect` says what should happen:
`fail` for a semantic mutation, `ok` for a harmless rewrite.

usage: selftest_extract.py <lake project dir> [name filter]
  (lake project: a copy of /verif/lean with OxiddModel/Generated; never run this inside /verif/lean)
"""
import os
import re
import shutil
import subprocess
import sys
import tempfile

HERE = os.path.dirname(os.path.abspath(__file__))
SRC = os.environ.get("OXIDD_REPO", "/repo")

MT = "crates/oxidd-rules-mtbdd/src/lib.rs"
I64 = "crates/oxidd-rules-mtbdd/src/terminal/i64.rs"
BC = "crates/oxidd-rules-bdd/src/complement_edge/mod.rs"
BCA = "crates/oxidd-rules-bdd/src/complement_edge/apply_rec.rs"
BDA = "crates/oxidd-rules-bdd/src/simple/apply_rec.rs"
BD = "crates/oxidd-rules-bdd/src/simple/mod.rs"
ZA = "crates/oxidd-rules-zbdd/src/apply_rec.rs"
ZL = "crates/oxidd-rules-zbdd/src/lib.rs"
TD = "crates/oxidd-rules-tdd/src/lib.rs"

# (name, file, old, new, module, expect)   `old` must occur exactly `count` times (default 1)
CASES = []


def case(name, file, old, new, module, expect, count=1):
    CASES.append((name, file, old, new, module, expect, count))


# ---- MTBDD terminal_bin -------------------------------------------------------------------------
M = "OxiddModel.Generated.ObTerminalMtbdd"
case("mt-sub-zero-left", MT,
     "            (_, Terminal(t)) if t.borrow().is_zero() => Done(m.clone_edge(f)),\n            (Terminal(t), _) | (_, Terminal(t)) if t.borrow().is_nan() => {\n                Done(m.get_terminal(T::nan())?)\n            }\n            _ => Binary(MTBDDOp::Sub,",
     "            (_, Terminal(t)) if t.borrow().is_zero() => Done(m.clone_edge(f)),\n            (Terminal(t), _) if t.borrow().is_zero() => Done(m.clone_edge(g)),\n            (Terminal(t), _) | (_, Terminal(t)) if t.borrow().is_nan() => {\n                Done(m.get_terminal(T::nan())?)\n            }\n            _ => Binary(MTBDDOp::Sub,",
     M, "fail")  # the historic defect `0 - g => g`
case("mt-mul-zero-shortcut", MT,
     "            (Terminal(t), _) if t.borrow().is_one() => Done(m.clone_edge(g)),",
     "            (Terminal(t), _) if t.borrow().is_zero() => Done(m.clone_edge(f)),\n            (Terminal(t), _) if t.borrow().is_one() => Done(m.clone_edge(g)),",
     M, "fail")  # 0 * x => 0 is wrong for NaN/inf
case("mt-div-swap-operands", MT, "_ => Binary(MTBDDOp::Div, f.borrowed(), g.borrowed()),",
     "_ if f > g => Binary(MTBDDOp::Div, g.borrowed(), f.borrowed()),\n            _ => Binary(MTBDDOp::Div, f.borrowed(), g.borrowed()),", M, "fail")
case("mt-min-select-swapped", MT,
     "                Some(Ordering::Less | Ordering::Equal) => m.clone_edge(f),\n                Some(Ordering::Greater) => m.clone_edge(g),",
     "                Some(Ordering::Less | Ordering::Equal) => m.clone_edge(g),\n                Some(Ordering::Greater) => m.clone_edge(f),", M, "fail")
case("mt-add-wrong-tag", MT, "_ => Binary(MTBDDOp::Add, f.borrowed(), g.borrowed()),",
     "_ => Binary(MTBDDOp::Sub, f.borrowed(), g.borrowed()),", M, "fail")
case("mt-add-compute-sub", MT, "let val = tf.borrow().add(tg.borrow());", "let val = tf.borrow().sub(tg.borrow());", M, "fail")
case("mt-nan-arm-removed-then-total", MT,
     "            _ if f > g => Binary(MTBDDOp::Max, g.borrowed(), f.borrowed()),\n            _ => Binary(MTBDDOp::Max, f.borrowed(), g.borrowed()),",
     "            _ if f > g => Binary(MTBDDOp::Max, g.borrowed(), f.borrowed()),", M, "fail")  # no catch-all
case("mt-harmless-reformat", MT,
     "            (Terminal(t), _) if t.borrow().is_zero() => Done(m.clone_edge(g)),\n            (_, Terminal(t)) if t.borrow().is_zero() => Done(m.clone_edge(f)),\n            (Terminal(t), _) | (_, Terminal(t)) if t.borrow().is_nan() => {\n                Done(m.get_terminal(T::nan())?)\n            }\n            _ if f > g => Binary(MTBDDOp::Add, g.borrowed(), f.borrowed()),",
     "            // reordered, renamed, reformatted\n            (_, Terminal(c)) if c.borrow().is_zero() => { Done(m.clone_edge(f)) }\n            (Terminal(c), _)\n                if c.borrow().is_zero() => Done(m.clone_edge(g)),\n            (_, Terminal(n)) | (Terminal(n), _) if n.borrow().is_nan() => Done(m.get_terminal(T::nan())?),\n            _ if g < f => Binary(MTBDDOp::Add, g.borrowed(), f.borrowed()),",
     M, "ok")
case("mt-harmless-select-order", MT,
     "                Some(Ordering::Greater | Ordering::Equal) => m.clone_edge(f),\n                Some(Ordering::Less) => m.clone_edge(g),\n                None => m.get_terminal(T::nan())?,",
     "                None => m.get_terminal(T::nan())?,\n                Some(Ordering::Less) => m.clone_edge(g),\n                Some(Ordering::Equal) | Some(Ordering::Greater) => { m.clone_edge(f) }",
     M, "ok")
case("mt-harmless-guard-spelling", MT, "(_, Terminal(t)) if t.borrow().is_one() => Done(m.clone_edge(f)),\n            (Terminal(t), _) | (_, Terminal(t)) if t.borrow().is_nan() => {\n                Done(m.get_terminal(T::nan())?)\n            }\n            _ => Binary(MTBDDOp::Div",
     "(_, Terminal(t)) if *t.borrow() == T::one() => Done(m.clone_edge(f)),\n            (Terminal(t), _) | (_, Terminal(t)) if t.borrow().is_nan() => {\n                Done(m.get_terminal(T::nan())?)\n            }\n            _ => Binary(MTBDDOp::Div",
     M, "ok")
case("mt-unparsable-guard", MT, "(_, Terminal(t)) if t.borrow().is_one() => Done(m.clone_edge(f)),\n            (Terminal(t), _) | (_, Terminal(t)) if t.borrow().is_nan() => {\n                Done(m.get_terminal(T::nan())?)\n            }\n            _ => Binary(MTBDDOp::Div",
     "(_, Terminal(t)) if t.borrow().is_unit() => Done(m.clone_edge(f)),\n            (Terminal(t), _) | (_, Terminal(t)) if t.borrow().is_nan() => {\n                Done(m.get_terminal(T::nan())?)\n            }\n            _ => Binary(MTBDDOp::Div",
     M, "fail")  # outside the extractor's vocabulary: reported via Unparsed, never skipped

# ---- I64 arithmetic ------------------------------------------------------------------------------
M = "OxiddModel.Generated.ObI64"
case("i64-add-overflow-sign", I64, "                    if lhs > 0 {\n                        PlusInf\n                    } else {\n                        MinusInf\n                    }",
     "                    if lhs > 0 {\n                        MinusInf\n                    } else {\n                        PlusInf\n                    }", M, "fail")  # historic defect
case("i64-sub-overflow-cond", I64, "if rhs < 0 {", "if lhs < 0 {", M, "fail")  # historic defect
case("i64-add-inf-minus-inf", I64, "(NaN, _) | (_, NaN) | (MinusInf, PlusInf) | (PlusInf, MinusInf) => NaN,", "(NaN, _) | (_, NaN) | (PlusInf, MinusInf) => NaN,", M, "fail")
case("i64-div-guard-le", I64, "(PlusInf, Num(n)) if n < 0 => MinusInf,", "(PlusInf, Num(n)) if n <= 0 => MinusInf,", M, "fail")
case("i64-cmp-swapped", I64, "(MinusInf, _) | (_, PlusInf) => Some(Ordering::Less),", "(MinusInf, _) | (_, PlusInf) => Some(Ordering::Greater),", M, "fail")
case("i64-mul-sign", I64, "                -1 => MinusInf,", "                -1 => NaN,", M, "fail")
case("i64-div-min-case", I64, "} else if lhs == i64::MIN && rhs == -1 {", "} else if lhs == i64::MIN && rhs == 1 {", M, "fail")
case("i64-mul-checked-add", I64, "lhs.checked_mul(rhs)", "lhs.checked_add(rhs)", M, "fail")
case("i64-harmless-reformat", I64, "            (NaN, _) | (_, NaN) | (MinusInf, MinusInf) | (PlusInf, PlusInf) => NaN,\n            (MinusInf, _) | (_, PlusInf) => MinusInf,",
     "            (_, I64::NaN) | (NaN, _) | (PlusInf, PlusInf) | (MinusInf, MinusInf) => { NaN }\n            (_, PlusInf) | (MinusInf, _) => return MinusInf,", M, "ok")
case("i64-harmless-cond-flip", I64, "if lhs > 0 && rhs > 0 || lhs < 0 && rhs < 0 {", "if (0 < lhs && 0 < rhs) || (0 > lhs && rhs < 0) {", M, "ok")
case("i64-equivalent-but-different", I64, "                    if lhs > 0 {\n                        PlusInf", "                    if rhs > 0 {\n                        PlusInf", M, "fail")  # equivalent under overflow, but not the model's text: reported (strict)

# ---- BCDD kernels ---------------------------------------------------------------------------------
M = "OxiddModel.Generated.ObBcddKernels"
case("bc-and-same-node-tags-differ", BC, "            return Done(EdgeDropGuard::new(manager, manager.clone_edge(g)));\n        }\n        return Done(EdgeDropGuard::new(manager, get_terminal(manager, false)));",
     "            return Done(EdgeDropGuard::new(manager, manager.clone_edge(g)));\n        }\n        return Done(EdgeDropGuard::new(manager, manager.clone_edge(f)));", M, "fail")
case("bc-and-mixed-arms-swapped", BC, "        (Inner(_), Terminal(_)) => (f, gt),\n        (Terminal(_), Inner(_)) => (g, ft),\n        (Terminal(_), Terminal(_)) => {\n            let res",
     "        (Inner(_), Terminal(_)) => (g, ft),\n        (Terminal(_), Inner(_)) => (f, gt),\n        (Terminal(_), Terminal(_)) => {\n            let res", M, "fail")
case("bc-xor-tail-inverted", BC, "let h = if tag == Complemented { h } else { not_owned(h) };", "let h = if tag == Complemented { not_owned(h) } else { h };", M, "fail")
case("bc-imp-wrong-operand", BCA, "        Ok(not_owned(apply_and(\n            manager,\n            rec,\n            lhs.borrowed(),\n            not(rhs),\n        )?))",
     "        Ok(not_owned(apply_and(\n            manager,\n            rec,\n            not(lhs),\n            rhs.borrowed(),\n        )?))", M, "fail")
case("bc-or-loses-negation", BCA, "        Ok(not_owned(Self::nor_edge(manager, lhs, rhs)?))", "        Self::nor_edge(manager, lhs, rhs)", M, "fail")
case("bc-mt-nand-loses-negation", BCA, "            let and = apply_and(manager, ParallelRecursor::new(manager), lhs, rhs)?;\n            Ok(not_owned(and))",
     "            let and = apply_and(manager, ParallelRecursor::new(manager), lhs, rhs)?;\n            Ok(and)", M, "fail")
case("bc-get-terminal-tag-side", BC, "    if val {\n        t\n    } else {\n        t.with_tag_owned(EdgeTag::Complemented)\n    }",
     "    if val {\n        t.with_tag_owned(EdgeTag::Complemented)\n    } else {\n        t\n    }", M, "fail")
case("bc-xor-cached-as-and", BCA, "                (BCDDOp::Xor, g.borrowed(), gnode, f.borrowed(), fnode)", "                (BCDDOp::And, g.borrowed(), gnode, f.borrowed(), fnode)", M, "fail")
case("bc-apply-bin-nodes-mispaired", BCA, "                (BCDDOp::And, g.borrowed(), gnode, f.borrowed(), fnode)", "                (BCDDOp::And, g.borrowed(), fnode, f.borrowed(), gnode)", M, "fail")
case("bc-harmless-clone-f", BC, "        if ft == gt {\n            return Done(EdgeDropGuard::new(manager, manager.clone_edge(g)));\n        }\n        return Done(EdgeDropGuard::new(manager, get_terminal(manager, false)));",
     "        if ft != gt {\n            return Done(EdgeDropGuard::new(manager, get_terminal(manager, false)));\n        } else {\n            // same edge\n            return Done(EdgeDropGuard::new(manager, manager.clone_edge(f)));\n        }", M, "ok")
case("bc-harmless-xor-tail", BC, "    let h = manager.clone_edge(h);\n    let h = if tag == Complemented { h } else { not_owned(h) };\n    Done(EdgeDropGuard::new(manager, h))",
     "    let c = manager.clone_edge(h);\n    let res = if tag == EdgeTag::None {\n        not_owned(c)\n    } else {\n        c\n    };\n    return Done(EdgeDropGuard::new(manager, res));", M, "ok")
case("bc-derivation-other-route", BCA, "        Ok(not_owned(Self::and_edge(manager, lhs, rhs)?))", "        let rec = SequentialRecursor;\n        Ok(not_owned(apply_and(manager, rec, lhs.borrowed(), rhs.borrowed())?))", M, "ok")

# ---- ZBDD set operations --------------------------------------------------------------------------
M = "OxiddModel.Generated.ObZbddApply"
case("zb-diff-eq-clone-f", ZA, "    if f == g || *f == *empty {\n        return Ok(empty.into_edge());\n    }", "    if f == g || *f == *empty {\n        return Ok(manager.clone_edge(&f));\n    }", M, "fail")
case("zb-intsec-empty-clone-f", ZA, "    if *f == *empty || *g == *empty {\n        return Ok(empty.into_edge());\n    }", "    if *f == *empty || *g == *empty {\n        return Ok(manager.clone_edge(&f));\n    }", M, "fail")
case("zb-symmdiff-eq-clone-f", ZA, "    if f == g {\n        return Ok(empty.into_edge());\n    }", "    if f == g {\n        return Ok(manager.clone_edge(&f));\n    }", M, "fail")
case("zb-diff-operand-swap", ZA, "    // Query apply cache\n    stat!(cache_query Diff);", "    let (f, g) = if f > g { (g, f) } else { (f, g) };\n    // Query apply cache\n    stat!(cache_query Diff);", M, "fail")
case("zb-intsec-less-hi", ZA, "            let flo = fnode.unwrap_inner().child(LO);\n            apply_intsec(", "            let flo = fnode.unwrap_inner().child(HI);\n            apply_intsec(", M, "fail")
case("zb-diff-greater-builds-node", ZA, "            let glo = gnode.unwrap_inner().child(LO);\n            apply_diff(manager, rec, f.borrowed(), glo.borrowed())",
     "            let (hi, glo) = collect_children(gnode.unwrap_inner());\n            let lo = apply_diff(manager, rec, f.borrowed(), glo)?;\n            reduce_borrowed(manager, glevel, hi, lo, Diff)", M, "fail")
case("zb-union-cache-tag", ZA, "        .get(manager, Union, &[f.borrowed(), g.borrowed()])", "        .get(manager, ZBDDOp::Intsec, &[f.borrowed(), g.borrowed()])", M, "fail")
case("zb-union-missing-empty-case", ZA, "    if *f == *empty {\n        return Ok(manager.clone_edge(&g));\n    }\n\n    // Union is commutative", "    // Union is commutative", M, "fail")
case("zb-harmless-reformat", ZA, "    if f == g || *g == *empty {\n        return Ok(manager.clone_edge(&f));\n    }\n    if *f == *empty {\n        return Ok(manager.clone_edge(&g));\n    }",
     "    // g empty or equal operands\n    if (*empty == *g) || g == f { return Ok(manager.clone_edge(&f)) }\n    if *f == *empty {\n        return Ok(manager.clone_edge(&g));\n    }", M, "ok")
case("zb-harmless-swap-spelling", ZA, "    // Intersection is commutative, make the set `{f, g}` unique\n    let (f, g) = if f > g { (g, f) } else { (f, g) };", "    let (f, g) = if f < g { (f, g) } else { (g, f) };", M, "ok")

# ---- reduce ---------------------------------------------------------------------------------------
M = "OxiddModel.Generated.ObReduce"
case("rd-zbdd-tests-lo", ZL, "    if manager.get_node(&hi).is_terminal(&ZBDDTerminal::Empty) {\n        stat!(reduced op);\n        return Ok(lo.into_edge());\n    }\n    oxidd_core::LevelView::get_or_insert(",
     "    if manager.get_node(&lo).is_terminal(&ZBDDTerminal::Empty) {\n        stat!(reduced op);\n        return Ok(lo.into_edge());\n    }\n    oxidd_core::LevelView::get_or_insert(", M, "fail")
case("rd-zbdd-returns-hi", ZL, "            manager.drop_edge(hi);\n            return ReducedOrNew::Reduced(lo);", "            manager.drop_edge(lo);\n            return ReducedOrNew::Reduced(hi);", M, "fail")
case("rd-bcdd-no-flip", BC, "            [t.with_tag_owned(EdgeTag::None), e.with_tag_owned(!et)],\n        );\n        (node, EdgeTag::Complemented)", "            [t.with_tag_owned(EdgeTag::None), e],\n        );\n        (node, EdgeTag::Complemented)", M, "fail")
case("rd-bcdd-out-tag", BC, "            ReducedOrNew::New(node, EdgeTag::Complemented)", "            ReducedOrNew::New(node, EdgeTag::None)", M, "fail")
case("rd-mtbdd-children-swapped", MT, "            ReducedOrNew::New(N::new(level, [t, e]), Default::default())", "            ReducedOrNew::New(N::new(level, [e, t]), Default::default())", M, "fail")
case("rd-tdd-two-of-three", TD, "        if t == u && u == e {", "        if t == u {", M, "fail")
case("rd-bdd-returns-else", BD, "            manager.drop_edge(f_else);\n            ReducedOrNew::Reduced(f_then)", "            manager.drop_edge(f_then);\n            ReducedOrNew::Reduced(f_else)", M, "fail")  # same value, but not the model's rule: reported (strict)
case("rd-harmless-reformat", TD, "        if t == u && u == e {", "        if e == u && (u == t) {", M, "ok")
case("rd-harmless-bcdd-test", BC, "        let tt = t.tag();\n        if tt == EdgeTag::Complemented {\n            let et = e.tag();", "        let t_tag = t.tag();\n        if EdgeTag::Complemented == t_tag {\n            let et = e.tag();", M, "ok")

# ---- atomicity of reference-count updates ----------------------------------------------------------
M = "OxiddModel.Generated.ObAtomicity"
IDYN = "crates/oxidd-manager-index/src/terminal_manager/dynamic.rs"
INODE = "crates/oxidd-manager-index/src/node/fixed_arity.rs"
PNODE = "crates/oxidd-manager-pointer/src/node/fixed_arity.rs"
ARCSLAB = "crates/arcslab/src/lib.rs"
case("at-dyn-retain-load-store", IDYN,
     "    let old_rc = item.rc.fetch_add(1, Relaxed);\n    if old_rc > (u32::MAX >> 1) {\n        std::process::abort(); // prevent overflow\n    }",
     "    let old_rc = item.rc.load(Relaxed);\n    if old_rc > (u32::MAX >> 1) {\n        std::process::abort(); // prevent overflow\n    }\n    item.rc.store(old_rc + 1, Relaxed);",
     M, "fail")  # the seeded defect: increment as separate load and store
case("at-arcslab-release-load-store", ARCSLAB, "        self.rc.fetch_sub(1, Release)\n",
     "        let old = self.rc.load(Acquire);\n        self.rc.store(old - 1, Release);\n        old\n", M, "fail")
case("at-pointer-retain-by-two", PNODE, "if self.rc.fetch_add(1, Relaxed) > (usize::MAX >> 1) {", "if self.rc.fetch_add(2, Relaxed) > (usize::MAX >> 1) {", M, "fail")
case("at-arcslab-release-relaxed", ARCSLAB, "        self.rc.fetch_sub(1, Release)\n", "        self.rc.fetch_sub(1, Relaxed)\n", M, "fail")
case("at-arcslab-retain-no-abort", ARCSLAB, "        if self.rc.fetch_add(1, Relaxed) > (usize::MAX >> 1) {\n            std::process::abort();\n        }", "        self.rc.fetch_add(1, Relaxed);", M, "fail")
case("at-dyn-alias-store", IDYN, "    let old_rc = item.rc.fetch_add(1, Relaxed);", "    let counter = &item.rc;\n    let old_rc = counter.load(Relaxed);\n    counter.store(old_rc + 1, Relaxed);", M, "fail")  # alias of the counter: reported as unparsed
case("at-dyn-get-edge-no-retain", IDYN, "                unsafe { self.retain(id as usize) };\n                id", "                id", M, "fail")
case("at-dyn-new-terminal-rc1", IDYN, "                    rc: AtomicU32::new(2),", "                    rc: AtomicU32::new(1),", M, "fail")
case("at-harmless-inline-check", IDYN,
     "    let old_rc = item.rc.fetch_add(1, Relaxed);\n    if old_rc > (u32::MAX >> 1) {\n        std::process::abort(); // prevent overflow\n    }",
     "    // same thing, written like the inner nodes' retain, stronger ordering, extra debug assertion\n    debug_assert!(item.rc.load(Relaxed) > 0);\n    if item.rc.fetch_add(1, std::sync::atomic::Ordering::AcqRel) > (u32::MAX >> 1) {\n        std::process::abort()\n    }",
     M, "ok")

# ---- apply_ite prologues ---------------------------------------------------------------------------
M = "OxiddModel.Generated.ObIte"
case("it-bdd-f-eq-h-or", BDA, "    if f == h {\n        return apply_bin::<M, R, { BDDOp::And as u8 }>(manager, rec, f, g);", "    if f == h {\n        return apply_bin::<M, R, { BDDOp::Or as u8 }>(manager, rec, f, g);", M, "fail")
case("it-bdd-terminal-f-swapped", BDA, "return Ok(manager.clone_edge(&*if *t.borrow() == True { g } else { h }));", "return Ok(manager.clone_edge(&*if *t.borrow() == True { h } else { g }));", M, "fail")
case("it-bdd-imp-becomes-impstrict", BDA, "                True => apply_bin::<M, R, { BDDOp::Imp as u8 }>(manager, rec, f, g),", "                True => apply_bin::<M, R, { BDDOp::ImpStrict as u8 }>(manager, rec, f, g),", M, "fail")
case("it-bdd-g-eq-h-dropped", BDA, "    if g == h {\n        return Ok(manager.clone_edge(&g));\n    }\n    if f == g {\n        return apply_bin::<M, R, { BDDOp::Or", "    if f == g {\n        return apply_bin::<M, R, { BDDOp::Or", M, "fail")  # then the terminal/terminal arm is unsound
case("it-bdd-cache-key-order", BDA, "        BDDOp::Ite,\n        &[f.borrowed(), g.borrowed(), h.borrowed()],\n    ) {", "        BDDOp::Ite,\n        &[f.borrowed(), h.borrowed(), g.borrowed()],\n    ) {", M, "fail")
case("it-bdd-ternary-mixed", BDA, "rec.ternary(apply_ite, manager, (ft, gt, ht), (fe, ge, he))?", "rec.ternary(apply_ite, manager, (ft, gt, he), (fe, ge, ht))?", M, "fail")
case("it-bcdd-tags-test-inverted", BCA, "        return if f.tag() == g.tag() {\n            Ok(not_owned(apply_and(manager, rec, not(&f), not(&h))?)) // f ∨ h", "        return if f.tag() != g.tag() {\n            Ok(not_owned(apply_and(manager, rec, not(&f), not(&h))?)) // f ∨ h", M, "fail")
case("it-bcdd-terminal-h-tag", BCA, "            return if h.tag() == EdgeTag::None {\n                Ok(not_owned(apply_and(manager, rec, f, not(&g))?)) // f → g", "            return if h.tag() == EdgeTag::Complemented {\n                Ok(not_owned(apply_and(manager, rec, f, not(&g))?)) // f → g", M, "fail")
case("it-bcdd-xor-loses-negation", BCA, "            not_owned(apply_bin::<M, R, { BCDDOp::Xor as u8 }>(\n                manager, rec, f, g,\n            )?) // f ↔ g", "            apply_bin::<M, R, { BCDDOp::Xor as u8 }>(\n                manager, rec, f, g,\n            )? // f ↔ g", M, "fail")
case("it-bdd-harmless-rewrite", BDA,
     "            return Ok(manager.clone_edge(&*if *t.borrow() == True { g } else { h }));\n        }\n    };\n    let (gnode, hnode) = match (manager.get_node(&g), manager.get_node(&h)) {\n        (Node::Inner(gn), Node::Inner(hn)) => (gn, hn),\n        (Node::Terminal(t), Node::Inner(_)) => {\n            return match t.borrow() {\n                True => apply_bin::<M, R, { BDDOp::Or as u8 }>(manager, rec, f, h),\n                False => apply_bin::<M, R, { BDDOp::ImpStrict as u8 }>(manager, rec, f, h),\n            };",
     "            // flipped test, reordered arms\n            return Ok(manager.clone_edge(&*if *t.borrow() == False { h } else { g }));\n        }\n    };\n    let (gnode, hnode) = match (manager.get_node(&g), manager.get_node(&h)) {\n        (Node::Inner(gn), Node::Inner(hn)) => (gn, hn),\n        (Node::Terminal(c), Node::Inner(_)) => {\n            return match c.borrow() {\n                False => { apply_bin::<M, R, { BDDOp::ImpStrict as u8 }>(manager, rec, f, h) }\n                True => apply_bin::<M, R, { BDDOp::Or as u8 }>(manager, rec, f, h),\n            };",
     M, "ok")
case("it-bcdd-harmless-rewrite", BCA,
     "        return Ok(if g.tag() == h.tag() {\n            manager.clone_edge(&g)\n        } else {\n            not_owned(apply_bin::<M, R, { BCDDOp::Xor as u8 }>(\n                manager, rec, f, g,\n            )?) // f ↔ g\n        });",
     "        if g.tag() != h.tag() {\n            return Ok(not_owned(apply_bin::<M, R, { BCDDOp::Xor as u8 }>(manager, rec, f, g)?));\n        } else {\n            return Ok(manager.clone_edge(&g));\n        }",
     M, "ok")

# ---- gc_count / count-cache epoch ------------------------------------------------------------------
M = "OxiddModel.Generated.ObEpoch"
IMGR = "crates/oxidd-manager-index/src/manager.rs"
PMGR = "crates/oxidd-manager-pointer/src/manager.rs"
CUTIL = "crates/oxidd-core/src/util/mod.rs"
case("ep-index-inc-dropped", IMGR,
     "        self.gc_count.fetch_add(1, Relaxed);\n        let guard = AbortOnDrop(\"Garbage collection panicked.\");",
     "        let guard = AbortOnDrop(\"Garbage collection panicked.\");", M, "fail")  # increment dropped …
case("ep-pointer-inc-moved-to-end", PMGR,
     ["        self.gc_count.fetch_add(1, Relaxed);\n        let guard = AbortOnDrop(\"Garbage collection panicked.\");", "        self.gc_ongoing.unlock();\n        guard.defuse();\n        collected"],
     ["        let guard = AbortOnDrop(\"Garbage collection panicked.\");", "        self.gc_count.fetch_add(1, Relaxed);\n        self.gc_ongoing.unlock();\n        guard.defuse();\n        collected"], M, "fail")
case("ep-index-inc-both-ends", IMGR, "        self.gc_ongoing.unlock();\n        guard.defuse();", "        self.gc_count.fetch_add(1, Relaxed);\n        self.gc_ongoing.unlock();\n        guard.defuse();", M, "fail")  # the proposed repair: a different protocol than the model's
case("ep-reorder-no-inc", IMGR, "        *self.gc_count.get_mut() += 1;\n        self.reorder_count += 1;", "        self.reorder_count += 1;", M, "fail")
case("ep-clear-ignores-vars", CUTIL, "        if epoch != self.epoch || vars != self.vars {", "        if epoch != self.epoch {", M, "fail")
case("ep-clear-and-instead-of-or", CUTIL, "        if epoch != self.epoch || vars != self.vars {", "        if epoch != self.epoch && vars != self.vars {", M, "fail")
case("ep-clear-keeps-map", CUTIL, "            self.vars = vars;\n            self.map.clear();", "            self.vars = vars;", M, "fail")
case("ep-clear-epoch-not-stored", CUTIL, "            self.epoch = epoch;\n            self.vars = vars;", "            self.vars = vars;", M, "fail")
case("ep-harmless-rewrite", CUTIL, "        let epoch = manager.gc_count();\n        if epoch != self.epoch || vars != self.vars {\n            self.epoch = epoch;\n            self.vars = vars;\n            self.map.clear();\n        }",
     "        let now = manager.gc_count();\n        if (self.vars != vars) || (self.epoch != now) {\n            self.map.clear();\n            self.vars = vars;\n            self.epoch = now;\n        }", M, "ok")
case("ep-harmless-gc-seqcst", IMGR, "        self.gc_count.fetch_add(1, Relaxed);\n        let guard", "        self.gc_count.fetch_add(1, std::sync::atomic::Ordering::SeqCst);\n        let guard", M, "ok")

# ---- cache keys of quant / apply_quant / restrict / substitute -------------------------------------
M = "OxiddModel.Generated.ObKeys"
case("ky-quant-get-drops-vars", BDA, "            .get(manager, operator, &[f.borrowed(), vars.borrowed()])", "            .get(manager, operator, &[f.borrowed()])", M, "fail")
case("ky-subst-drops-id", BDA, "        (&[f.borrowed()], &[cache_id]),\n    ) {", "        (&[f.borrowed()], &[]),\n    ) {", M, "fail")
case("ky-restrict-add-drops-cube", BDA, ".add(manager, BDDOp::Restrict, &[f, vars], res.borrowed());", ".add(manager, BDDOp::Restrict, &[f], res.borrowed());", M, "fail")
case("ky-apply-quant-operands-swapped", BDA, "        &[f.borrowed(), g.borrowed(), vars.borrowed()],\n    ) {", "        &[g.borrowed(), f.borrowed(), vars.borrowed()],\n    ) {", M, "fail")
case("ky-from-apply-quant-shared-tag", BD, "                _ if op == BDDOp::Nand as u8 => BDDOp::ExistsNand,", "                _ if op == BDDOp::Nand as u8 => BDDOp::ExistsAnd,", M, "fail")
case("ky-quant-operator-table", BDA, "        _ if Q == BDDOp::Or as u8 => BDDOp::Exists,", "        _ if Q == BDDOp::Or as u8 => BDDOp::Forall,", M, "fail")
case("ky-apply-quant-pop-level", BDA, "        crate::set_pop(manager, vars, min_level)", "        crate::set_pop(manager, vars, flevel)", M, "fail")
case("ky-restrict-cached-as-quant", BDA, "                BDDOp::Restrict,\n                &[f.borrowed(), vars.borrowed()],", "                BDDOp::Exists,\n                &[f.borrowed(), vars.borrowed()],", M, "fail")
case("ky-harmless-rewrite", BDA,
     ["    let res = if flevel == vlevel {", "        .add(manager, operator, &[f, vars], res.borrowed());\n\n    Ok(res)\n}\n\n/// Recursively apply the binary operator `OP` to `f` and `g` while quantifying",
      "            if let Some(res) = manager.apply_cache().get(\n                manager,\n                BDDOp::Restrict,\n                &[f.borrowed(), vars.borrowed()],\n            ) {"],
     ["    let out = if flevel == vlevel {", "        .add(manager, operator, &[f.borrowed(), vars.borrowed()], out.borrowed());\n\n    Ok(out)\n}\n\n/// Recursively apply the binary operator `OP` to `f` and `g` while quantifying",
      "            if let Some(res) = manager.apply_cache().get(manager, BDDOp::Restrict, &[f.borrowed(), vars.borrowed()]) {"],
     M, "ok")

# ---- F64 normalisation -----------------------------------------------------------------------------
M = "OxiddModel.Generated.ObF64"
F64RS = "crates/oxidd-rules-mtbdd/src/terminal/f64.rs"
case("fx-mul-unnormalised", F64RS, "    fn mul(&self, rhs: &Self) -> Self {\n        Self::from(self.0 * rhs.0)", "    fn mul(&self, rhs: &Self) -> Self {\n        Self(self.0 * rhs.0)", M, "fail")  # the seeded defect
case("fx-div-operator-trait-unnormalised", F64RS, "    fn div(self, rhs: Self) -> F64 {\n        Self::from(self.0 / rhs.0)", "    fn div(self, rhs: Self) -> F64 {\n        F64(self.0 / rhs.0)", M, "fail")
case("fx-normaliser-forgets-negative-zero", F64RS, "        } else if value.to_bits() == (-0.0f64).to_bits() {\n            0.0\n        } else {", "        } else {", M, "fail")
case("fx-sub-adds", F64RS, "    fn sub(&self, rhs: &Self) -> Self {\n        Self::from(self.0 - rhs.0)", "    fn sub(&self, rhs: &Self) -> Self {\n        Self::from(self.0 + rhs.0)", M, "fail")
case("fx-zero-is-negative-zero", F64RS, "    fn zero() -> Self {\n        Self(0.)", "    fn zero() -> Self {\n        Self(-0.0)", M, "fail")
case("fx-parse-unnormalised-again", F64RS, "            _ => Self::from(f64::from_str(s).ok()?),", "            _ => Self(f64::from_str(s).ok()?),", M, "fail")  # the finding of round 2 (repaired in /repo, e0f38d1) seeded back
case("fx-harmless-rewrite", F64RS, "    fn add(&self, rhs: &Self) -> Self {\n        Self::from(self.0 + rhs.0)\n    }", "    fn add(&self, rhs: &Self) -> Self {\n        // same\n        F64::from( (self.0 + rhs.0) )\n    }", M, "ok")


# ---- front ends (sequential / multi-threaded copies) ------------------------------------------------
M = "OxiddModel.Generated.ObFrontEnds"
case("fe-bcdd-imp-strict-swapped-seq", BCA, "        apply_and(manager, rec, not(lhs), rhs.borrowed())\n    }",
     "        apply_and(manager, rec, not(rhs), lhs.borrowed())\n    }", M, "fail")  # seeded: one copy only
case("fe-bdd-apply-exists-swapped-seq", BDA,
     "        let rec = SequentialRecursor;\n        let (lhs, rhs, vars) = (lhs.borrowed(), rhs.borrowed(), vars.borrowed());\n        apply_quant_dispatch::<_, _, { BDDOp::Or as u8 }>(manager, rec, op, lhs, rhs, vars)",
     "        let rec = SequentialRecursor;\n        let (lhs, rhs, vars) = (lhs.borrowed(), rhs.borrowed(), vars.borrowed());\n        apply_quant_dispatch::<_, _, { BDDOp::Or as u8 }>(manager, rec, op, rhs, lhs, vars)", M, "fail")
case("fe-zbdd-diff-swapped-seq", ZA, "        apply_diff(manager, SequentialRecursor, lhs.borrowed(), rhs.borrowed())",
     "        apply_diff(manager, SequentialRecursor, rhs.borrowed(), lhs.borrowed())", M, "fail")
case("fe-bdd-apply-unique-imp-swapped-mt", BDA,
     "            let rec = ParallelRecursor::new(manager);\n            apply_quant_dispatch::<_, _, { BDDOp::Xor as u8 }>(manager, rec, op, lhs, rhs, vars)",
     "            let rec = ParallelRecursor::new(manager);\n            let op = match op {\n                BooleanOperator::Imp => BooleanOperator::ImpStrict,\n                BooleanOperator::ImpStrict => BooleanOperator::Imp,\n                o => o,\n            };\n            apply_quant_dispatch::<_, _, { BDDOp::Xor as u8 }>(manager, rec, op, lhs, rhs, vars)", M, "fail")
case("fe-bdd-dispatch-imp-swapped", BDA, "        Imp => apply_quant::<_, _, Q, { BDDOp::Imp as u8 }>(manager, rec, f, g, vars),",
     "        Imp => apply_quant::<_, _, Q, { BDDOp::ImpStrict as u8 }>(manager, rec, f, g, vars),", M, "fail")
case("fe-zbdd-mt-nand-is-and", ZA, "            let and = EdgeDropGuard::new(manager, apply_intsec(manager, rec, lhs, rhs)?);\n            apply_not(manager, rec, and.borrowed())",
     "            apply_intsec(manager, rec, lhs, rhs)", M, "fail")
case("fe-mt-uses-sequential-recursor", BDA, "            let (lhs, rhs) = (lhs.borrowed(), rhs.borrowed());\n            let rec = ParallelRecursor::new(manager);\n            apply_bin::<_, _, { BDDOp::And as u8 }>(manager, rec, lhs, rhs)",
     "            let (lhs, rhs) = (lhs.borrowed(), rhs.borrowed());\n            let rec = SequentialRecursor;\n            apply_bin::<_, _, { BDDOp::And as u8 }>(manager, rec, lhs, rhs)", M, "fail")
case("fe-tdd-xor-is-equiv", "crates/oxidd-rules-tdd/src/apply_rec.rs", "        apply_bin::<_, { TDDOp::Xor as u8 }>(manager, lhs.borrowed(), rhs.borrowed())",
     "        apply_bin::<_, { TDDOp::Equiv as u8 }>(manager, lhs.borrowed(), rhs.borrowed())", M, "fail")
case("fe-harmless-rewrite", BCA,
     ["        let rec = SequentialRecursor;\n        apply_and(manager, rec, not(lhs), rhs.borrowed())\n    }", "            let (nl, rhs) = (not(lhs), rhs.borrowed());\n            apply_and(manager, ParallelRecursor::new(manager), nl, rhs)"],
     ["        let nl = not(lhs);\n        apply_bin::<_, _, { BCDDOp::And as u8 }>(manager, SequentialRecursor, nl, rhs.borrowed())\n    }", "            let rec = ParallelRecursor::new(manager);\n            let r = rhs.borrowed();\n            apply_and(manager, rec, not(lhs), r)"], M, "ok")

# ---- cache keys of BCDD / ZBDD / MTBDD / TDD ----------------------------------------------------------
M = "OxiddModel.Generated.ObKeys2"
MTA = "crates/oxidd-rules-mtbdd/src/apply_rec.rs"
case("k2-zbdd-subset-key-without-var", ZA, "            .get_extended(manager, op, (&[f.borrowed()], &[var]))", "            .get_extended(manager, op, (&[f.borrowed()], &[]))", M, "fail")
case("k2-zbdd-restrict-key-without-num-levels", ZA,
     ["        (&[f.borrowed(), vars.borrowed()], &[num_levels]),", "        (&[f, vars], &[num_levels]),"],
     ["        (&[f.borrowed(), vars.borrowed()], &[]),", "        (&[f, vars], &[]),"], M, "fail")  # the historic defect
case("k2-bcdd-quant-add-shadowed-vars", BCA, "        .add(manager, operator, &[f, vars], res.borrowed());\n\n    Ok(res)\n}\n\n/// Recursively apply the binary operator `OP` to `f` and `g` while quantifying",
     "        ;\n    let vars = vnode.child(0);\n    manager\n        .apply_cache()\n        .add(manager, operator, &[f, vars], res.borrowed());\n\n    Ok(res)\n}\n\n/// Recursively apply the binary operator `OP` to `f` and `g` while quantifying", M, "fail")  # get / add with different bindings of `vars`
case("k2-bcdd-restrict-key-tagged", BCA, "                &[f_untagged.borrowed(), vars.borrowed()],", "                &[f.borrowed(), vars.borrowed()],", M, "fail")
case("k2-mtbdd-ite-key-drops-h", MTA, "        &[f.borrowed(), g.borrowed(), h.borrowed()],\n    ) {", "        &[f.borrowed(), g.borrowed()],\n    ) {", M, "fail")
case("k2-zbdd-union-cached-as-intsec", ZA, "        .get(manager, Union, &[f.borrowed(), g.borrowed()])", "        .get(manager, ZBDDOp::Intsec, &[f.borrowed(), g.borrowed()])", M, "fail")
case("k2-harmless-rewrite", ZA,
     ["        (&[f, vars], &[num_levels]),\n        (&[res.borrowed()], &[]),", "    if let Some(([h], [])) =\n        manager\n            .apply_cache()\n            .get_extended(manager, op, (&[f.borrowed()], &[var]))"],
     ["        (&[f.borrowed(), vars.borrowed()], &[num_levels]),\n        (&[res.borrowed()], &[]),", "    let cached = manager.apply_cache().get_extended(manager, op, (&[f.borrowed()], &[var]));\n    if let Some(([h], [])) = cached"], M, "ok")

# ---- apply_ite prologues of MTBDD / TDD / ZBDD --------------------------------------------------------
M = "OxiddModel.Generated.ObIte2"
TDA = "crates/oxidd-rules-tdd/src/apply_rec.rs"
case("i2-tdd-f-eq-h-or", TDA, "        return apply_bin::<M, { TDDOp::And as u8 }>(manager, f, g);\n    }\n    let fnode", "        return apply_bin::<M, { TDDOp::Or as u8 }>(manager, f, g);\n    }\n    let fnode", M, "fail")
case("i2-tdd-g-false-imp", TDA, "            False => return apply_bin::<M, { TDDOp::ImpStrict as u8 }>(manager, f, h),", "            False => return apply_bin::<M, { TDDOp::Imp as u8 }>(manager, f, h),", M, "fail")
case("i2-mtbdd-zero-selects-g", MTA, "            return Ok(if t.is_zero() {\n                manager.clone_edge(&h)", "            return Ok(if t.is_zero() {\n                manager.clone_edge(&g)", M, "fail")
case("i2-zbdd-g-empty-diff-swapped", ZA, "        return apply_diff(manager, rec, h, f);", "        return apply_diff(manager, rec, f, h);", M, "fail")
case("i2-zbdd-tautology-level", ZA, "    let level = std::cmp::min(flevel, ghlevel);\n    let tautology", "    let level = std::cmp::min(flevel, glevel);\n    let tautology", M, "fail")
case("i2-tdd-recursion-mixed", TDA, "apply_ite_rec(manager, f1, g1, h1)?", "apply_ite_rec(manager, f1, g1, h2)?", M, "fail")
case("i2-harmless-rewrite", ZA, "    if g == h {\n        return Ok(manager.clone_edge(&g));\n    }\n    if f == g {\n        return apply_union(manager, rec, f, h);\n    }",
     "    // same tests, other spelling\n    if g == h { return Ok(manager.clone_edge(&g)); }\n    if f == g {\n        return apply_union( manager, rec, f, h, );\n    }", M, "ok")

# ---- hook order of both managers ------------------------------------------------------------------------
M = "OxiddModel.Generated.ObHooks"
case("hk-pointer-post-reorder-before-resize", PMGR,
     "        self.unique_table\n            .resize_with(new_len as usize, || Mutex::new(LevelViewSet::default()));\n        self.var_level_map.extend(additional);\n        self.var_name_map.add_unnamed(additional);\n\n        debug_assert_eq!(new_len as usize, self.unique_table.len());\n        debug_assert_eq!(new_len as usize, self.var_level_map.len());\n        debug_assert_eq!(new_len, self.var_name_map.len());\n\n        self.data.post_reorder(self);\n        MD::post_reorder_mut(self);\n",
     "        self.data.post_reorder(self);\n        MD::post_reorder_mut(self);\n        self.unique_table\n            .resize_with(new_len as usize, || Mutex::new(LevelViewSet::default()));\n        self.var_level_map.extend(additional);\n        self.var_name_map.add_unnamed(additional);\n", M, "fail")
case("hk-index-reorder-flag-stuck", IMGR, "        MD::post_reorder_mut(self);\n        self.reorder_gc_prepared = false;\n", "        MD::post_reorder_mut(self);\n", M, "fail")
case("hk-pointer-reorder-no-pregc", PMGR, "        self.data.pre_gc(self);\n        self.reorder_gc_prepared = true;", "        self.reorder_gc_prepared = true;", M, "fail")
case("hk-index-gc-pregc-unconditional", IMGR, "        if !self.reorder_gc_prepared {\n            self.data.pre_gc(self);\n        }", "        self.data.pre_gc(self);", M, "fail")
case("hk-index-add-vars-no-mut-hook", IMGR, "        self.data.pre_reorder(self);\n        MD::pre_reorder_mut(self);\n\n        self.unique_table\n            .resize_with(new_len as usize", "        self.data.pre_reorder(self);\n\n        self.unique_table\n            .resize_with(new_len as usize", M, "fail")
case("hk-harmless-rewrite", PMGR, "        if !self.reorder_gc_prepared {\n            self.data.pre_gc(self);\n        }\n\n        let mut collected = 0;",
     "        if !self.reorder_gc_prepared { self.data.pre_gc(self); }\n        let started = ();\n        let mut collected = 0;", M, "ok")


def run(proj, flt):
    gen = os.path.join(proj, "OxiddModel", "Generated")
    tr = os.path.join(HERE, "extract_tables.py")
    results = []
    for name, file, old, new, module, expect, count in CASES:
        if flt and flt not in name:
            continue
        tmp = tempfile.mkdtemp(prefix="oxsrc-")
        try:
            shutil.copytree(os.path.join(SRC, "crates"), os.path.join(tmp, "crates"))
            p = os.path.join(tmp, file)
            s = open(p, encoding="utf-8").read()
            olds, news = (old, new) if isinstance(old, (list, tuple)) else ([old], [new])  # several replacements in one file
            bad = [o for o in olds if s.count(o) != count]
            if bad:
                results.append((name, expect, "SETUP", f"pattern occurs {s.count(bad[0])}x"))
                continue
            for o, n in zip(olds, news):
                s = s.replace(o, n)
            open(p, "w", encoding="utf-8").write(s)
            r = subprocess.run([sys.executable, tr, "--src-root", tmp, "--out-dir", gen], stdout=subprocess.PIPE, stderr=subprocess.STDOUT)
            if r.returncode != 0:
                results.append((name, expect, "fail", "extractor: " + r.stdout.decode()[-200:].strip()))
                continue
            b = subprocess.run(["lake", "build", module], cwd=proj, stdout=subprocess.PIPE, stderr=subprocess.STDOUT)
            out = b.stdout.decode(errors="replace")
            got = "ok" if b.returncode == 0 else "fail"
            first = ""
            if got == "fail":
                m = re.search(r"error: (\S+\.lean:\d+:\d+: [^\n]*)", out)
                first = m.group(1)[:160] if m else out[-160:]
                unp = [l for f in os.listdir(gen) if f.startswith("Src") for l in open(os.path.join(gen, f), encoding="utf-8") if "Unparsed" in l and ":= []" not in l and l.startswith("def")]
                if unp:
                    first += " | " + unp[0].strip()[:200]
            results.append((name, expect, got, first))
        finally:
            shutil.rmtree(tmp, ignore_errors=True)
    # restore the tables of the unmodified source
    subprocess.run([sys.executable, tr, "--src-root", SRC, "--out-dir", gen], stdout=subprocess.DEVNULL)
    bad = 0
    for name, expect, got, first in results:
        mark = "as expected" if expect == got else "UNEXPECTED"
        bad += expect != got
        print(f"{name:34s} expect={expect:4s} got={got:5s} {mark}  {first}")
    print(f"{len(results)} cases, {bad} unexpected")
    return bad


if __name__ == "__main__":
    if len(sys.argv) < 2:
        print(__doc__)
        sys.exit(2)
    sys.exit(1 if run(os.path.abspath(sys.argv[1]), sys.argv[2] if len(sys.argv) > 2 else "") else 0)
