#!/usr/bin/env python3
"""Self-test of tools/extract_ffi.py: apply one mutation at a time to a scratch COPY of
crates/oxidd-ffi-c/src, regenerate SrcFfi.lean from the copy, rebuild OxiddModel.Generated.ObFfi in a
scratch lake project and report whether it (a) still builds, (b) fails.

usage: selftest_extract_ffi.py <lake project dir> [name filter]
  (lake project: a copy of /verif/lean with OxiddModel/Generated/{RulesFfi,ObFfi}.lean and
   OxiddModel/Ffi; never run this inside /verif/lean)
"""
import os
import shutil
import subprocess
import sys
import tempfile

HERE = os.path.dirname(os.path.abspath(__file__))
SRC = os.environ.get("OXIDD_REPO", "/repo")
CR = "crates/oxidd-ffi-c/src"
CASES = []


def case(name, file, old, new, expect, count=1):
    CASES.append((name, file, old, new, expect, count))


case("threadlocal-satcount-cache", "bdd.rs",
     "#[unsafe(no_mangle)]\npub unsafe extern \"C\" fn oxidd_bdd_sat_count_double(f: bdd_t, vars: LevelNo) -> f64 {\n    let f = unsafe { f.get() }.expect(FUNC_UNWRAP_MSG);",
     "thread_local! {\n    static COUNT_CACHE: std::cell::RefCell<std::collections::HashMap<(usize, LevelNo), f64>> = Default::default();\n}\n#[unsafe(no_mangle)]\npub unsafe extern \"C\" fn oxidd_bdd_sat_count_double(f: bdd_t, vars: LevelNo) -> f64 {\n    if let Some(c) = COUNT_CACHE.with(|c| c.borrow().get(&(f._i, vars)).copied()) {\n        return c;\n    }\n    let f = unsafe { f.get() }.expect(FUNC_UNWRAP_MSG);",
     "fail")  # the seeded R4-C19 defect: a memo table shared between managers
case("static-mut-counter", "util/mod.rs", "pub const FUNC_UNWRAP_MSG", "pub static mut CALLS: usize = 0;\npub const FUNC_UNWRAP_MSG", "fail")
case("imp-swapped", "bdd.rs", "unsafe { op2(lhs, rhs, BDDFunction::imp) }", "unsafe { op2(rhs, lhs, BDDFunction::imp) }", "fail")
case("and-forwards-to-or", "zbdd.rs", "unsafe { op2(lhs, rhs, ZBDDFunction::and) }", "unsafe { op2(lhs, rhs, ZBDDFunction::or) }", "fail")
case("helper-closure", "bcdd.rs", "unsafe { op2(lhs, rhs, BCDDFunction::imp) }", "unsafe { op2(lhs, rhs, |a, b| b.imp(a)) }", "fail")
case("ite-args-rotated", "bdd.rs", "unsafe { op3(cond, then_case, else_case, BDDFunction::ite) }", "unsafe { op3(cond, else_case, then_case, BDDFunction::ite) }", "fail")
case("node-count-consumes", "bdd.rs", "    unsafe { f.get() }.expect(FUNC_UNWRAP_MSG).node_count()",
     "    unsafe { BDDFunction::from_raw(f._p, f._i) }.node_count()", "fail")
case("query-drops-borrow", "zbdd.rs", "    unsafe { f.get() }.expect(FUNC_UNWRAP_MSG).satisfiable()",
     "    let f = unsafe { f.get() }.expect(FUNC_UNWRAP_MSG);\n    let r = f.satisfiable();\n    drop(ManuallyDrop::into_inner(f));\n    r", "fail")
case("substitute-empty-returns-arg", "bdd.rs", "    if substitution.is_null() {\n        return bdd_t::INVALID;\n    }",
     "    if substitution.is_null() {\n        return bdd_t::INVALID;\n    }\n    if unsafe { &*substitution }.vars.is_empty() {\n        return f;\n    }", "fail")  # seeded R3
case("ref-without-forget", "bcdd.rs", "    std::mem::forget(unsafe { f.get() }.clone());\n    f", "    let _ = unsafe { f.get() }.clone();\n    f", "fail")
case("unref-no-null-check", "bdd.rs", "    if !f._p.is_null() {\n        drop(unsafe { BDDFunction::from_raw(f._p, f._i) });\n    }",
     "    drop(unsafe { BDDFunction::from_raw(f._p, f._i) });", "fail")
case("make-node-before-fix", "zbdd.rs",
     "    let hi = unsafe { hi.get() }.map(ManuallyDrop::into_inner);\n    let lo = unsafe { lo.get() }.map(ManuallyDrop::into_inner);\n    let res = unsafe { var.get() }.and_then(|var| {\n        let hi = hi?;\n        let lo = lo?;",
     "    let res = unsafe { var.get() }.and_then(|var| {\n        let hi = ManuallyDrop::into_inner(unsafe { hi.get() }?);\n        let lo = ManuallyDrop::into_inner(unsafe { lo.get() }?);",
     "fail")
case("make-node-hi-lo-swapped", "zbdd.rs", "oxidd::zbdd::make_node(manager, var, hi.into_edge(manager), lo.into_edge(manager))",
     "oxidd::zbdd::make_node(manager, var, lo.into_edge(manager), hi.into_edge(manager))", "fail")
case("subst-id-from-address", "bcdd.rs", "        id: oxidd_core::util::new_substitution_id(),", "        id: (&capacity as *const usize) as usize as u32,", "fail")  # seeded
case("vartolevel-inverse", "bcdd.rs", "manager.with_manager_shared(|manager| manager.var_to_level(var))", "manager.with_manager_shared(|manager| manager.level_to_var(var))", "fail")  # seeded R3
case("cofactor-true-false-swapped", "bdd.rs", "        f.cofactor_true().into()", "        f.cofactor_false().into()", "fail")
case("new-export-two-managers", "bdd.rs", "/// Compute the BDD for the negation",
     "#[unsafe(no_mangle)]\npub unsafe extern \"C\" fn oxidd_bdd_transfer(from: bdd_manager_t, to: bdd_manager_t, f: bdd_t) -> bdd_t {\n    let _ = (from, to);\n    f\n}\n\n/// Compute the BDD for the negation", "fail")
case("harmless-inline-let", "bdd.rs",
     "pub unsafe extern \"C\" fn oxidd_bdd_manager_gc_count(manager: bdd_manager_t) -> u64 {\n    let manager = unsafe { manager.get() };\n    manager.with_manager_shared(|manager| manager.gc_count())",
     "pub unsafe extern \"C\" fn oxidd_bdd_manager_gc_count(manager: bdd_manager_t) -> u64 {\n    // no intermediate binding\n    unsafe { manager.get() }\n        .with_manager_shared(|m| m.gc_count())", "ok")
case("harmless-comments-format", "zbdd.rs", "unsafe { op2(lhs, rhs, ZBDDFunction::union) }", "unsafe {\n        /* set union */\n        op2(\n            lhs, rhs, // operands\n            ZBDDFunction::union,\n        )\n    }", "ok")
case("semantic-setvarorder-len2", "bdd.rs", "    if order.is_null() || len < 2 {", "    if order.is_null() || len <= 2 {", "ok")  # seeded R2: not a property of the wrapper *shape*; caught by the capi stream


def main():
    proj = os.path.abspath(sys.argv[1])
    flt = sys.argv[2] if len(sys.argv) > 2 else ""
    gen = os.path.join(proj, "OxiddModel", "Generated", "SrcFfi.lean")
    saved = open(gen).read()
    bad = 0
    try:
        for (name, file, old, new, expect, count) in CASES:
            if flt and flt not in name:
                continue
            tmp = tempfile.mkdtemp(prefix="ffi-selftest-")
            try:
                dst = os.path.join(tmp, CR)
                shutil.copytree(os.path.join(SRC, CR), dst)
                p = os.path.join(dst, file)
                s = open(p).read()
                if s.count(old) != count:
                    print(f"{name}: pattern occurs {s.count(old)} times (expected {count}) — test is stale")
                    bad += 1
                    continue
                open(p, "w").write(s.replace(old, new))
                r = subprocess.run([sys.executable, os.path.join(HERE, "extract_ffi.py"), "--src-root", tmp, "--out-dir", os.path.dirname(gen)],
                                   stdout=subprocess.PIPE, stderr=subprocess.STDOUT)
                out = r.stdout.decode()
                if r.returncode != 0:
                    res, why = "fail", "extractor: " + out.strip().split("\n")[-1]
                else:
                    b = subprocess.run(["lake", "build", "OxiddModel.Generated.ObFfi"], cwd=proj, stdout=subprocess.PIPE, stderr=subprocess.STDOUT)
                    bo = b.stdout.decode()
                    res = "ok" if b.returncode == 0 else "fail"
                    why = ""
                    if res == "fail":
                        import re
                        ths = []
                        lines = open(os.path.join(proj, "OxiddModel", "Generated", "ObFfi.lean")).read().split("\n")
                        for m in re.finditer(r"ObFfi\.lean:(\d+):", bo):
                            k = int(m.group(1)) - 1
                            while k >= 0 and not lines[k].startswith(("theorem", "example")):
                                k -= 1
                            if k >= 0:
                                t = lines[k].split()[1] if lines[k].startswith("theorem") else "example"
                                if t not in ths:
                                    ths.append(t)
                        why = ", ".join(ths) or bo.strip().split("\n")[-1][:200]
                verdict = "as expected" if res == expect else "UNEXPECTED"
                if res != expect:
                    bad += 1
                print(f"{name}: {res} ({verdict}) {why}", flush=True)
            finally:
                shutil.rmtree(tmp, ignore_errors=True)
    finally:
        open(gen, "w").write(saved)
    print(f"{bad} unexpected")
    sys.exit(1 if bad else 0)


if __name__ == "__main__":
    main()
